------------------------------ MODULE MC_RDStep ------------------------------
(* Exhaustive exploration of the step relations over a family of small          *)
(* configurations supplied by the harness (all behaviours up to a depth):         *)
(* every Gillespie event and every tau-leap bag of up to two events keeps every    *)
(* conservation law (C02) and every chemostated entry (C03); Gillespie states stay *)
(* non-negative integers (C07).                                                     *)
EXTENDS RDStep, Json, IOUtils, TLC

In == JsonDeserialize(IOEnv.IN_FILE)
CONSTANTS MaxDepth, LeapDepth

Rq(p) == <<p[1], p[2]>>
MkCfg(t) ==
  LET g == t.space
      nbr == IF g.type = "grid" THEN GridNbr(g.w, g.h, g.d, g.bc, g.hh)
             ELSE GraphNbr(t.nC, [e \in 1..Len(g.edges) |->
                    [i |-> g.edges[e].i, j |-> g.edges[e].j, sfc |-> Rq(g.edges[e].sfc), dst |-> Rq(g.edges[e].dst)]])
  IN  [nC |-> t.nC, nS |-> t.nS, nR |-> t.nR, sub |-> t.sub, sto |-> t.sto, env |-> t.env,
       k |-> [e \in 1..Len(t.k) |-> [r \in 1..t.nR |-> Rq(t.k[e][r])]],
       D |-> [s \in 1..t.nS |-> [e \in 1..Len(t.D[s]) |-> Rq(t.D[s][e])]],
       h |-> t.h, nbr |-> nbr, chs |-> t.chs]

VARIABLES ci, cf, x0, x, mode
mv == <<ci, cf, x0, x, mode>>

Fire(i, r)    == CanFire(cf, x, i, r) /\ x' = FireRes(cf, x, i, r)
Move(i, s, n) == CanMove(cf, x, i, s, n) /\ x' = MoveRes(cf, x, i, s, n)

(* the events possible in x, as <<kind, i, a, b>> *)
EvOK(e) == IF e[1] = "r" THEN CanFire(cf, x, e[2], e[3]) ELSE CanMove(cf, x, e[2], e[3], e[4])
AllEvents ==
  {<<"r", i, r, 0>> : i \in CellsOf(cf), r \in ReacsOf(cf)} \cup
  UNION {{<<"d", i, s, n>> : n \in 1..Len(cf.nbr[i])} : i \in CellsOf(cf), s \in SpeciesOf(cf)}
Possible == {e \in AllEvents : EvOK(e)}
Cnt(e1, e2, f) == (IF e1 = f THEN 1 ELSE 0) + (IF e2 = f THEN 1 ELSE 0)
Leap2 ==       \* two events (possibly the same channel twice), both possible in the state BEFORE the step
  \E e1 \in Possible, e2 \in Possible :
     x' = LeapRes(cf, x,
            [i \in CellsOf(cf) |-> [r \in ReacsOf(cf) |-> Cnt(e1, e2, <<"r", i, r, 0>>)]],
            [i \in CellsOf(cf) |-> [s \in SpeciesOf(cf) |-> [n \in 1..Len(cf.nbr[i]) |-> Cnt(e1, e2, <<"d", i, s, n>>)]]])

MInit == /\ ci \in 1..Len(In) /\ cf = MkCfg(In[ci]) /\ x0 = In[ci].x0 /\ x = In[ci].x0
         /\ mode \in {"gillespie", "tauleap"}
Keep == UNCHANGED <<ci, cf, x0, mode>>
FireAct == Keep /\ mode = "gillespie" /\ \E i \in CellsOf(cf), r \in ReacsOf(cf) : Fire(i, r)
MoveAct == Keep /\ mode = "gillespie" /\ \E i \in CellsOf(cf), s \in SpeciesOf(cf) : \E n \in 1..Len(cf.nbr[i]) : Move(i, s, n)
LeapAct == Keep /\ mode = "tauleap" /\ TLCGet("level") <= LeapDepth /\ Leap2
MNext == FireAct \/ MoveAct \/ LeapAct
MSpec == MInit /\ [][MNext]_mv
MBound == TLCGet("level") <= MaxDepth

MNonNeg    == mode = "gillespie" => NonNeg(cf, x)
MConserved == Conserved(cf, x0, x)
MChemostat == ChemostatsHeld(cf, x0, x)
(* the successor relation and the declarative GStep agree *)
MStepIsGStep == [][mode = "gillespie" => GStep(cf, x, x')]_mv
=============================================================================
