------------------------------- MODULE Eval_RD -------------------------------
(* TLC as the oracle: evaluates operators of RDModel / RDStep on configurations  *)
(* and states supplied by the harness and writes the exact results as JSON.       *)
(*   Mode "laws"   : conservation laws of each configuration                       *)
(*   Mode "rates"  : CTMC generator (all propensities) at each given state          *)
(*   Mode "flaw"   : deterministic rate law at each given (rational) state, in both  *)
(*                   shapes (declarative and engine-shaped) - they must agree          *)
EXTENDS RDStep, Json, IOUtils, TLC

In  == JsonDeserialize(IOEnv.IN_FILE)
Out == IOEnv.OUT_FILE
Mode == IOEnv.MODE

Rq(p) == <<p[1], p[2]>>
MkCfg(t) ==
  LET g == t.space
      nbr == IF g.type = "grid" THEN GridNbr(g.w, g.h, g.d, g.bc, g.hh)
             ELSE GraphNbr(t.nC, [e \in 1..Len(g.edges) |->
                    [i |-> g.edges[e].i, j |-> g.edges[e].j, sfc |-> Rq(g.edges[e].sfc), dst |-> Rq(g.edges[e].dst)]])
  IN  [nC |-> t.nC, nS |-> t.nS, nR |-> t.nR, sub |-> t.sub, sto |-> t.sto, env |-> t.env,
       k |-> [e \in 1..Len(t.k) |-> [r \in 1..t.nR |-> Rq(t.k[e][r])]],
       D |-> [s \in 1..t.nS |-> [e \in 1..Len(t.D[s]) |-> Rq(t.D[s][e])]],
       h |-> t.h, nbr |-> nbr, chs |-> t.chs]

SetToSeqOrd(S) == LET RECURSIVE f(_) f(T) == IF T = {} THEN <<>> ELSE LET e == CHOOSE e \in T : TRUE IN <<e>> \o f(T \ {e}) IN f(S)

Laws(t) == LET c == MkCfg(t) IN [nbrlen |-> [i \in 1..c.nC |-> Len(c.nbr[i])],
                                  laws |-> SetToSeqOrd({[s \in 1..c.nS |-> v[s]] : v \in ConsLaws(c)})]

RatesAt(t) == LET c == MkCfg(t) IN
  [i \in 1..Len(t.states) |-> Rates(c, t.states[i])]

RatState(c, xs) == [i \in 1..c.nC |-> [s \in 1..c.nS |-> Rq(xs[i][s])]]
FlawAt(t) == LET c == MkCfg(t) IN
  [n \in 1..Len(t.states) |->
     LET x == RatState(c, t.states[n]) IN
     [law  |-> [i \in 1..c.nC |-> [s \in 1..c.nS |-> FLaw(c, x, i, s, TRUE)]],
      eng  |-> [i \in 1..c.nC |-> [s \in 1..c.nS |-> FEngine(c, x, i, s, TRUE)]],
      free |-> [i \in 1..c.nC |-> [s \in 1..c.nS |-> FLaw(c, x, i, s, FALSE)]],
      agree |-> \A i \in 1..c.nC, s \in 1..c.nS :
                  /\ FLaw(c, x, i, s, TRUE) = FEngine(c, x, i, s, TRUE)
                  /\ FLaw(c, x, i, s, FALSE) = FEngine(c, x, i, s, FALSE),
      gross |-> [i \in 1..c.nC |-> [s \in 1..c.nS |-> FGross(c, x, i, s)]],
      euler |-> EulerRes(c, x, Rq(t.dt)),
      (* design-level statements about one Euler step, in exact arithmetic *)
      eulerConserves |-> \A v \in ConsLaws(c) : RTotal(c, v, EulerRes(c, x, Rq(t.dt))) = RTotal(c, v, x),
      eulerHoldsChem |-> \A i \in 1..c.nC, s \in 1..c.nS : c.chs[i][s] => EulerRes(c, x, Rq(t.dt))[i][s] = x[i][s],
      chemZero  |-> \A i \in 1..c.nC, s \in 1..c.nS : c.chs[i][s] => FLaw(c, x, i, s, TRUE) = Zero,
      restSame  |-> \A i \in 1..c.nC, s \in 1..c.nS : ~c.chs[i][s] => FLaw(c, x, i, s, TRUE) = FLaw(c, x, i, s, FALSE),
      nlaws |-> Cardinality(ConsLaws(c))]]

Result ==
  CASE Mode = "laws"  -> [i \in 1..Len(In) |-> Laws(In[i])]
    [] Mode = "rates" -> [i \in 1..Len(In) |-> RatesAt(In[i])]
    [] Mode = "flaw"  -> [i \in 1..Len(In) |-> FlawAt(In[i])]

ASSUME JsonSerialize(Out, Result)
ASSUME PrintT(<<"EVAL-DONE", Len(In)>>)
=============================================================================
