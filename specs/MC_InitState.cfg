SPECIFICATION ISpec
CONSTANTS
  NCells = 3
  Amounts = {0, 1, 2, 4, 7}
  MaxDraw = 2
  RangeIsFloor = FALSE
INVARIANT PostHolds
INVARIANT NeverNegative
INVARIANT ZeroStaysZero
PROPERTY Terminates
