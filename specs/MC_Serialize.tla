----------------------------- MODULE MC_Serialize -----------------------------
(* All units-declaration trees over the eight nesting levels: the recursive rule of the      *)
(* readers (retrive_units_system_from_dict called with the parent's system) equals the        *)
(* declarative reading (nearest level that says something definite); every tree is emitted    *)
(* with the effective system of every level for replay.  Also: alias groups never overlap,     *)
(* acceptability of key sets, path resolution.                                                 *)
EXTENDS Serialize, Json

CONSTANTS Emit, Choices
VARIABLES decl
MInit == decl \in [{Levels[i] : i \in 1..Len(Levels)} -> Choices]
MNext == FALSE /\ UNCHANGED decl
MSpec == MInit /\ [][MNext]_decl
LevelSet == {Levels[i] : i \in 1..Len(Levels)}
RuleIsNearest == \A l \in LevelSet : Eff(decl, l) = NearestDefinite(decl, l)
ExplicitWins  == \A l \in LevelSet : decl[l] \in {"S1", "S2"} => Eff(decl, l) = decl[l]
ChildInherits == \A l \in LevelSet : (Parent(l) # "none" /\ decl[l] \in {"absent", "inherit"}) => Eff(decl, l) = Eff(decl, Parent(l))
ASSUME NoAliasClash
ASSUME Acceptable("species", {"l", "diff coef", "C"}) /\ ~Acceptable("species", {"label", "l"}) /\ ~Acceptable("species", {"D"})
       /\ ~Acceptable("species", {"label", "colour"}) /\ Acceptable("grid", {}) /\ ~Acceptable("graph", {"nodes", "edges"})
ASSUME Resolve(<<"/", "a", "b", "script.json">>, <<"sub", "system.json">>) = <<"/", "a", "b", "sub", "system.json">>
       /\ Resolve(<<"/", "a", "script.json">>, <<"/", "x", "net.json">>) = <<"/", "x", "net.json">>
ASSUME Emit => PrintT(<<"KEYS", ToJson(Keys)>>)
Emitted == Emit => PrintT(<<"PROGRAM", ToJson([decl |-> decl, eff |-> [l \in LevelSet |-> Eff(decl, l)]])>>)
=============================================================================
