SPECIFICATION Spec
CONSTANTS
  Eqs <- MCEqs
  Systems <- MCSystems
  Vals <- MCVals
  Depth = 3
  Emit = FALSE
VIEW view
INVARIANT DimensionsFollowOrders
INVARIANT Emitted
PROPERTY UnitsChangeKeepsMeaning
PROPERTY HalvesCarryTheConstants
