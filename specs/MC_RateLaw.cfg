SPECIFICATION LSpec
INVARIANT ShapesAgree
INVARIANT FlaggedZero
INVARIANT OthersIgnoreFlag
PROPERTY EulerConserves
PROPERTY EulerHoldsChem
