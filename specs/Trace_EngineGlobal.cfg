SPECIFICATION TraceSpecChecked
CONSTANTS
  Objects = {"e1", "e2"}
  Sharing = "global"
  Deltas = {2}
INVARIANT Accepted
