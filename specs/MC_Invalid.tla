------------------------------ MODULE MC_Invalid ------------------------------
(* C20: invalid input is rejected.  Every case class instantiates the complement of a     *)
(* validity predicate of the other modules (key acceptability of Serialize, bounds of       *)
(* Geometry, dimension equality, ranges), together with valid twins - so that a check that   *)
(* passes because everything raises is caught.  Each case is emitted as                       *)
(*   [class, ..parameters.., valid]                                                           *)
EXTENDS Serialize, Geometry, Json

VARIABLES case
Kinds == {"script", "system", "network", "species", "reaction", "grid", "graph", "node", "edge", "unitsys"}
(* a minimal acceptable dictionary of each kind (by canonical names), plus optional keys *)
Base == [script |-> {"system", "t_sample", "time_step"}, system |-> {"network", "space"}, network |-> {"species", "reactions", "environments"},
         species |-> {"label", "D", "density"}, reaction |-> {"stoichiometry", "k+"}, grid |-> {"w", "cell_volume"},
         graph |-> {"type", "nodes", "edges"}, node |-> {"volume", "environment"}, edge |-> {"nodes", "surface"},
         unitsys |-> {"space", "time", "quantity"}]
AliasesOf(kind, name) == LET g == Keys[kind][GroupOf(kind, name)] IN {g[j] : j \in 1..Len(g)} \ {name}
GroupSet(kind, g) == {Keys[kind][g][j] : j \in 1..Len(Keys[kind][g])}
KeyCases ==
  UNION {
     {[class |-> "keys", kind |-> k, names |-> Base[k], note |-> "base"]}
     \cup {[class |-> "keys", kind |-> k, names |-> Base[k] \cup {"colour"}, note |-> "unknown key"]}
     \cup {[class |-> "keys", kind |-> k, names |-> Base[k] \cup {a}, note |-> "two aliases of one key"] : a \in UNION {AliasesOf(k, n) : n \in Base[k]}}
     \cup UNION {{[class |-> "keys", kind |-> k, names |-> (Base[k] \ {n}) \cup {a}, note |-> "alias instead of canonical"] :
              a \in AliasesOf(k, n)} : n \in Base[k]}
     \cup {[class |-> "keys", kind |-> k, names |-> Base[k] \ {m}, note |-> "dropped key"] : m \in Base[k]}
     \* every pair of names of one key, canonical or not, mandatory or optional (the base keeps its other keys)
     \cup UNION {UNION {{[class |-> "keys", kind |-> k, names |-> (Base[k] \ GroupSet(k, g)) \cup {a, b}, note |-> "two names of one key"] :
                  b \in GroupSet(k, g) \ {a}} : a \in GroupSet(k, g)} : g \in 1..Len(Keys[k])}
     \* every single name of every key on top of the base (valid twins of the above)
     \cup UNION {{[class |-> "keys", kind |-> k, names |-> (Base[k] \ GroupSet(k, g)) \cup {a}, note |-> "one name of the key"] :
                  a \in GroupSet(k, g)} : g \in 1..Len(Keys[k])}
     : k \in Kinds}
KeyValid(c) == Acceptable(c.kind, c.names)

Fields == {"density", "D", "k0", "k1", "k2", "k3", "cell_volume", "node_volume", "edge_surface", "edge_distance",
           "time_step", "t_max", "sampling_interval", "t_sample", "state"}
Expected(f) == CASE f = "density" -> <<-3, 0, 1>> [] f = "D" -> <<2, -1, 0>> [] f = "k0" -> <<-3, -1, 1>> [] f = "k1" -> <<0, -1, 0>>
                 [] f = "k2" -> <<3, -1, -1>> [] f = "k3" -> <<6, -1, -2>> [] f = "cell_volume" -> <<3, 0, 0>> [] f = "node_volume" -> <<3, 0, 0>>
                 [] f = "edge_surface" -> <<2, 0, 0>> [] f = "edge_distance" -> <<1, 0, 0>> [] f = "state" -> <<0, 0, 1>>
                 [] OTHER -> <<0, 1, 0>>
DimCases == {[class |-> "dimension", field |-> f, dim |-> <<Expected(f)[1] + a, Expected(f)[2] + b, Expected(f)[3] + c>>] :
                f \in Fields, a \in -1..1, b \in -1..1, c \in -1..1}
DimValid(c) == c.dim = Expected(c.field)

Shapes == {<<1, 1, 1>>, <<2, 1, 1>>, <<2, 3, 1>>, <<2, 2, 2>>}
PosCases ==
  UNION {{[class |-> "position", form |-> "index", shape |-> s, pos |-> <<i>>] : i \in -2..(s[1] * s[2] * s[3] + 2)}
         \cup {[class |-> "position", form |-> fo, shape |-> s, pos |-> <<x, y, z>>] :
                  fo \in {"tuple", "object"}, x \in -1..s[1], y \in -1..s[2], z \in -1..s[3]} : s \in Shapes}
  \cup UNION {{[class |-> "position", form |-> "node", shape |-> <<n, 1, 1>>, pos |-> <<i>>] : i \in -2..(n + 1)} : n \in 1..3}
PosValid(c) == IF c.form \in {"index", "node"} THEN InBoundsIdx(c.shape[1], c.shape[2], c.shape[3], c.pos[1])
               ELSE InBoundsXYZ(c.shape[1], c.shape[2], c.shape[3], c.pos[1], c.pos[2], c.pos[3])

SizeCases == {[class |-> "grid-size", w |-> w, h |-> h, d |-> d] : w \in -1..2, h \in -1..2, d \in -1..2}
SizeValid(c) == c.w >= 1 /\ c.h >= 1 /\ c.d >= 1
EnvCases == {[class |-> "environment-index", nenv |-> n, index |-> i, explicit |-> e] : n \in 1..3, i \in -2..4, e \in BOOLEAN}
            \cup {[class |-> "environment-map-length", size |-> s, len |-> l] : s \in 1..4, l \in 0..5}
EnvValid(c) == IF c.class = "environment-index" THEN c.index >= 0 /\ c.index < c.nenv ELSE c.len = c.size
Species3 == 3
SpeciesCases == {[class |-> "species-ref", form |-> "index", index |-> i] : i \in -2..5}
SpeciesValid(c) == c.index >= 0 /\ c.index < Species3

Cases == KeyCases \cup DimCases \cup PosCases \cup SizeCases \cup EnvCases \cup SpeciesCases
Valid(c) == CASE c.class = "keys" -> KeyValid(c) [] c.class = "dimension" -> DimValid(c) [] c.class = "position" -> PosValid(c)
              [] c.class = "grid-size" -> SizeValid(c) [] c.class \in {"environment-index", "environment-map-length"} -> EnvValid(c)
              [] c.class = "species-ref" -> SpeciesValid(c)

VInit == case \in Cases
VNext == FALSE /\ UNCHANGED case
VSpec == VInit /\ [][VNext]_case
(* every class has both invalid instances and valid twins *)
Classes == {c.class : c \in Cases}
ASSUME \A cl \in Classes : (\E c \in Cases : c.class = cl /\ Valid(c)) /\ (\E c \in Cases : c.class = cl /\ ~Valid(c))
Emitted == PrintT(<<"PROGRAM", ToJson([c |-> [case EXCEPT !.class = case.class], valid |-> Valid(case)])>>)
=============================================================================
