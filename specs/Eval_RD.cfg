
