---------------------------- MODULE MC_CoarseGrain ----------------------------
(* C16 on the model: every index map over -1..MaxGroup of every listed grid x environment   *)
(* maps: valid maps give a graph that conserves volume, amounts, environments and            *)
(* chemostat flags over the retained cells; un-coarse-graining preserves group totals; the    *)
(* identity map gives the grid's own graph.  Every case is emitted for replay.                *)
EXTENDS CoarseGrain, Json

CONSTANTS Shapes, MaxGroup, Emit
QuickShapes == {<<2, 2, 1>>, <<3, 1, 1>>, <<1, 2, 2>>}
(* thorough: every orientation of the 4-cell grids and a 5-cell row (about 160k cases; 3x2x1 and 2x2x2 did not finish in an hour) *)
ThoroughShapes == {<<2, 2, 1>>, <<4, 1, 1>>, <<1, 2, 2>>, <<2, 1, 2>>, <<1, 4, 1>>, <<1, 1, 4>>, <<5, 1, 1>>}
VARIABLES shape, env, map
cv == <<shape, env, map>>
W == shape[1]  H == shape[2]  D == shape[3]
N == W * H * D
CInit == /\ shape \in Shapes
         /\ env \in [1..(shape[1] * shape[2] * shape[3]) -> 0..1]
         /\ map \in [1..(shape[1] * shape[2] * shape[3]) -> -1..MaxGroup]
CNext == FALSE /\ UNCHANGED cv
CSpec == CInit /\ [][CNext]_cv

Valid == ValidMap(map, N, env)
X == [c \in 1..N |-> 10 + c]                       \* amounts of a species: all different
Chem == [c \in 1..N |-> c % 3 = 0]
VolumeConserved == Valid => SumSet(Groups(map), [g \in 1..(MaxOfMap(map) + 1) |-> GroupSize(map, g - 1)]) = Cardinality(Retained(map))
AmountConserved == Valid => SumSet(Groups(map), [g \in 1..(MaxOfMap(map) + 1) |-> GroupSum(map, X, g - 1)]) = SumSet(Retained(map), X)
EnvKept == Valid => \A g \in Groups(map) : \A c \in Members(map, g) : GroupEnv(map, env, g) = env[c + 1]
ChemIsOr == Valid => \A g \in Groups(map) : GroupChem(map, Chem, g) <=> (\E c \in Members(map, g) : Chem[c + 1])
EdgesSound == Valid => \A e \in EdgeSet(W, H, D, map) :
                 /\ e[1] # e[2]
                 /\ \E c1 \in Members(map, e[1]), c2 \in Members(map, e[2]) : AreNeighbors(W, H, D, <<FALSE, FALSE, FALSE>>, c1, c2)
EdgesComplete == Valid => \A c1, c2 \in Retained(map) :
                 (map[c1 + 1] # map[c2 + 1] /\ AreNeighbors(W, H, D, <<FALSE, FALSE, FALSE>>, c1, c2))
                    => (<<map[c1 + 1], map[c2 + 1]>> \in EdgeSet(W, H, D, map) \/ <<map[c2 + 1], map[c1 + 1]>> \in EdgeSet(W, H, D, map))
UncoarseTotals == Valid => LET gv == [g \in 1..(MaxOfMap(map) + 1) |-> GroupSum(map, X, g - 1)] IN
                 \A g \in Groups(map) :
                    RSumSeq([k \in 1..N |-> IF map[k] = g THEN Uncoarse(map, gv, k - 1) ELSE Zero]) = R(gv[g + 1])
IdentityIsGrid == (Valid /\ \A c \in 1..N : map[c] = c - 1) =>
                 /\ EdgeSet(W, H, D, map) = {<<p[1], p[2]>> : p \in FacePairs(W, H, D)}
                 /\ \A e \in EdgeSet(W, H, D, map) : SharedFaces(W, H, D, map, e[1], e[2]) = 1 /\ Dist2(W, H, map, e[1], e[2]) = One

EdgeList == LET RECURSIVE f(_) f(S) == IF S = {} THEN <<>> ELSE LET e == CHOOSE e \in S : TRUE IN
                <<[i |-> e[1], j |-> e[2], faces |-> SharedFaces(W, H, D, map, e[1], e[2]), d2 |-> Dist2(W, H, map, e[1], e[2])]>> \o f(S \ {e})
            IN f(EdgeSet(W, H, D, map))
Emitted == Emit => PrintT(<<"PROGRAM", ToJson(
   IF ~Valid THEN [shape |-> shape, env |-> env, map |-> map, valid |-> FALSE]
   ELSE [shape |-> shape, env |-> env, map |-> map, valid |-> TRUE,
         nodes |-> [g \in 1..(MaxOfMap(map) + 1) |-> [size |-> GroupSize(map, g - 1), env |-> GroupEnv(map, env, g - 1),
                                                      chem |-> GroupChem(map, Chem, g - 1), x |-> GroupSum(map, X, g - 1)]],
         edges |-> EdgeList])>>)
=============================================================================
