SPECIFICATION SSpec
CONSTANTS
  Objects = {"e1"}
  Sharing = "perObject"
  Deltas = {2}
  MaxK = 3
  MaxDepth = 9
CONSTRAINT SBound
VIEW SView
INVARIANT ScheduleIndependence
INVARIANT OneShotCompletes
PROPERTY OnlyIterationsAdvance
PROPERTY ObserversReadOnly
PROPERTY StickyComplete
PROPERTY IdleAfterDone
