SPECIFICATION Spec
CONSTANTS
  Depth = 1
  Emit = TRUE
INVARIANT Refinement
INVARIANT Emitted
