--------------------------- MODULE Trace_Simulate ---------------------------
(* Trace validation of the driver simulate_script: the calls it makes on the engine    *)
(* handed to it (recorded by a proxy object standing between the driver and the real   *)
(* LibRDEngine, harness/engine_rec.py) must be a behaviour of Simulate - the actions    *)
(* of Simulate are reused, each constrained by the logged return values - and what it   *)
(* returns must be the object its single get_output call returned.                      *)
(* Calls outside a driver invocation (pc = "idle") are ordinary Engine calls.           *)
EXTENDS Simulate, Json, IOUtils

Traces == JsonDeserialize(IOEnv.TRACE_FILE)

VARIABLES tid, l
tvars == <<svars, tid, l>>
Ev == Traces[tid].ev[l]

Common(e) == /\ obs'.call = e.call /\ obs'.obj = e.obj
Seen(e)   == /\ obs'.ns = e.ns /\ obs'.t = e.t
RunCands(e) == LET dn == (e.t - alg[Own(e.obj)].t) \div 2 IN {IF dn < 1 THEN 1 ELSE dn, dn + 1}

DriverEvent(e) ==
  \/ /\ e.call = "simulate_begin" /\ e.obj = DriverObj /\ DBegin
  \/ /\ e.call = "setup"        /\ e.obj = DriverObj /\ e.cfg.kind \in {"fixed", "gill"} /\ DSetup(e.cfg) /\ Common(e) /\ Seen(e)
  \/ /\ e.call = "run"          /\ e.obj = DriverObj /\ DRunJ(RunCands(e)) /\ Common(e) /\ Seen(e) /\ obs'.ret = e.ret
  \/ /\ e.call = "get_progress" /\ e.obj = DriverObj /\ DProgress /\ Common(e) /\ Seen(e) /\ obs'.pnum = e.pnum
  \/ /\ e.call = "get_output"   /\ e.obj = DriverObj /\ DFetch /\ Common(e) /\ Seen(e)
     /\ obs'.recT = e.recT /\ obs'.recN = e.recN /\ e.dataok
  \/ /\ e.call = "finalize"     /\ e.obj = DriverObj /\ DRelease /\ Common(e)
  \/ /\ e.call = "simulate_end" /\ e.obj = DriverObj /\ DReturn /\ e.outok /\ ReturnsCompletedRun

(* ordinary calls between driver invocations (same clauses as Trace_Engine) *)
PlainEvent(e) ==
  /\ pc = "idle" /\ UNCHANGED <<pc, out, ncalls>>
  /\ \/ /\ e.call = "setup"       /\ e.cfg.kind \in {"fixed", "gill"} /\ Setup(e.obj, e.cfg) /\ Common(e) /\ Seen(e)
     \/ /\ e.call = "iterate"     /\ Iterate(e.obj) /\ Common(e) /\ Seen(e) /\ obs'.ret = e.ret
     \/ /\ e.call = "iterate_n"   /\ IterateN(e.obj, e.k) /\ Common(e) /\ Seen(e) /\ obs'.ret = e.ret
     \/ /\ e.call = "sample"      /\ SampleCall(e.obj) /\ Common(e) /\ Seen(e)
     \/ /\ e.call = "is_complete" /\ IsComplete(e.obj) /\ Common(e) /\ obs'.ret = e.ret
     \/ /\ e.call = "get_output"  /\ GetOutput(e.obj) /\ Common(e) /\ Seen(e)
        /\ obs'.recT = e.recT /\ obs'.recN = e.recN /\ e.dataok
     \/ /\ e.call = "finalize"    /\ Finalize(e.obj) /\ Common(e)
     \/ /\ e.call = "caller_edits" /\ CallerEdits(e.obj) /\ Common(e) /\ Seen(e)

TraceInit == DInit /\ tid \in 1..Len(Traces) /\ l = 1
TraceNext ==
  /\ l <= Len(Traces[tid].ev)
  /\ (DriverEvent(Ev) \/ PlainEvent(Ev))
  /\ (AllInv' /\ AllAct /\ ReturnsCompletedRun' /\ NeverTouchesReleased' /\ LoopOnlyWhileUnfinished')
  /\ l' = l + 1 /\ tid' = tid
TraceSpec == TraceInit /\ [][TraceNext]_tvars

Accepted == (l = Len(Traces[tid].ev) + 1) => PrintT(<<"ACCEPTED", Traces[tid].id>>)
=============================================================================
