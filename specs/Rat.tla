--------------------------------- MODULE Rat ---------------------------------
(* Exact rationals <<num, den>> with den > 0, kept in lowest terms.            *)
(* TLC integers are 32 bit: users keep numerators and denominators small.     *)
EXTENDS Integers, Sequences

Abs(x) == IF x < 0 THEN -x ELSE x

RECURSIVE GCD(_, _)
GCD(a, b) == IF b = 0 THEN Abs(a) ELSE GCD(b, a % b)

Norm(n, d) ==
  LET s == IF d < 0 THEN -1 ELSE 1
      g == GCD(Abs(n), Abs(d))
  IN  IF n = 0 THEN <<0, 1>> ELSE <<(s * n) \div g, (s * d) \div g>>

R(n)        == <<n, 1>>
Zero        == <<0, 1>>
One         == <<1, 1>>
RAdd(a, b)  == LET g == GCD(a[2], b[2])          \* via the lcm, to stay inside 32 bits longer
               IN  Norm(a[1] * (b[2] \div g) + b[1] * (a[2] \div g), (a[2] \div g) * b[2])
RNeg(a)     == <<-a[1], a[2]>>
RSub(a, b)  == RAdd(a, RNeg(b))
RMul(a, b)  == LET g1 == GCD(Abs(a[1]), b[2])     \* cross-cancel before multiplying
                   g2 == GCD(Abs(b[1]), a[2])
               IN  IF a[1] = 0 \/ b[1] = 0 THEN <<0, 1>>
                   ELSE <<(a[1] \div g1) * (b[1] \div g2), (a[2] \div g2) * (b[2] \div g1)>>
RInv(a)     == Norm(a[2], a[1])
RDiv(a, b)  == RMul(a, RInv(b))
RIsZero(a)  == a[1] = 0
RPos(a)     == a[1] > 0
RLt(a, b)   == a[1] * b[2] < b[1] * a[2]
REq(a, b)   == a[1] * b[2] = b[1] * a[2]
RAbs(a)     == <<Abs(a[1]), a[2]>>

RECURSIVE RPow(_, _)
RPow(a, n)  == IF n = 0 THEN One ELSE IF n > 0 THEN RMul(a, RPow(a, n - 1)) ELSE RInv(RPow(a, -n))

RECURSIVE RSumSeq(_)
RSumSeq(s)  == IF s = <<>> THEN Zero ELSE RAdd(Head(s), RSumSeq(Tail(s)))
=============================================================================
