------------------------------- MODULE Engine -------------------------------
(***************************************************************************)
(* The stateful core of strengths: the native simulation object driven     *)
(* through the LibRDEngine lifecycle.                                       *)
(*                                                                         *)
(* Structure follows the code, one operator per critical section:           *)
(*   NativeInit      SimulationAlgorithm*Base::Init  (reset + t0 sampling)  *)
(*   SamplingStep    ::SamplingStep  (SampleOnTSample / Sample /            *)
(*                   SampleOnInterval / nothing)                            *)
(*   SampleRec       ::Sample  (guarded by sampling_done_this_iteration)    *)
(*   CheckTMax       ::CheckTMax                                            *)
(*   Iter1Set        Euler/TauLeap/Gillespie ::Iterate                      *)
(*   IterNSet        engineexport_iterate_n / engineexport_run loops        *)
(* and one action per LibRDEngine method (Setup, Iterate, IterateN, Run,    *)
(* SampleCall, GetProgress, IsComplete, GetOutput, Finalize).               *)
(*                                                                         *)
(* Time is abstract: an integer.  In model checking it is a tick count;     *)
(* in trace validation it is 2*k for the time of step k, and a requested    *)
(* time strictly between two step times is the odd number between them     *)
(* (an order embedding of the doubles the engine actually compares).        *)
(*                                                                         *)
(* Sharing = "perObject" is the contract (each engine object owns its       *)
(* simulation); Sharing = "global" is the code as built (one native         *)
(* simulation aliased by every object, finding F6).                         *)
(***************************************************************************)
EXTENDS Naturals, Integers, Sequences, FiniteSets, TLC

CONSTANTS Objects,   \* engine objects
          Sharing,   \* "perObject" | "global"
          Deltas     \* possible time increments of one gillespie event

VARIABLES alg,    \* [Slot -> algorithm record]  the native simulation(s)
          unf,    \* [Objects -> BOOLEAN]  LibRDEngine._simulation_unfinished
          has,    \* [Objects -> BOOLEAN]  the object has been set up (owns a _script)
          undef,  \* BOOLEAN  a call touched a deleted simulation (only reachable when Sharing = "global")
          obs     \* observation of the last call (what the caller can see)

vars == <<alg, unf, has, undef, obs>>
core == <<alg, unf, has, undef>>

Slot   == IF Sharing = "global" THEN {"G"} ELSE Objects
Own(e) == IF Sharing = "global" THEN "G" ELSE e

NoCfg == [kind |-> "none", dt |-> 0, tmax |-> -1, policy |-> 3, interval |-> 1,
          ts |-> <<>>, qs |-> <<>>, death |-> -2]

NoAlgo == [live |-> FALSE, cfg |-> NoCfg, t |-> 0, n |-> 0, pos |-> 0, done |-> FALSE,
           lastq |-> -1, complete |-> FALSE, stepT |-> <<>>,
           recT |-> <<>>, recN |-> <<>>, recBy |-> <<>>]

(* ---------------- configuration -------------------------------------- *)
(* kind     "fixed" (euler, tauleap: t += dt)  |  "gill" (event-driven)      *)
(* dt       time step (fixed kinds)                                         *)
(* tmax     time past which the run is complete; negative = no limit        *)
(* policy   0 on_t_sample, 1 on_iteration, 2 on_interval, 3 no_sampling      *)
(* interval sampling interval (policy 2)                                    *)
(* ts       requested sample times (non-decreasing)                         *)
(* qs       optional table: qs[k+1] = floor(T_k/interval) as the engine      *)
(*          computes it in binary64 (trace validation); <<>> = use t \div I *)
(* death    gill: step index after which no event is possible (a0 = 0);     *)
(*          -1 = unknown (nondeterministic), -2 = never                     *)

(* beyond the table (a step the reference run never made) the quotient is unknown: -1 = no new multiple *)
Q(a) == IF a.cfg.qs = <<>> THEN a.t \div a.cfg.interval
        ELSE IF a.n + 1 <= Len(a.cfg.qs) THEN a.cfg.qs[a.n + 1] ELSE -1

(* ---------------- native code, as functions on the record ------------- *)

SampleRec(a, by) ==                       \* ::Sample()
  IF a.done THEN a
  ELSE [a EXCEPT !.recT = Append(@, a.t), !.recN = Append(@, a.n),
                 !.recBy = Append(@, by), !.done = TRUE]

NewPos(a) ==                              \* where the while loop of SampleOnTSample stops
  LET L == Len(a.cfg.ts)
      S == {p \in a.pos..L : p = L \/ a.cfg.ts[p + 1] > a.t}
  IN  CHOOSE p \in S : \A r \in S : p <= r

SamplingStep(a) ==
  CASE a.cfg.policy = 0 ->
         LET np == NewPos(a)
         IN  IF np > a.pos THEN [SampleRec(a, "policy") EXCEPT !.pos = np] ELSE a
    [] a.cfg.policy = 1 -> SampleRec(a, "policy")
    [] a.cfg.policy = 2 ->
         LET q == Q(a)
         IN  IF q > a.lastq THEN [SampleRec(a, "policy") EXCEPT !.lastq = q] ELSE a
    [] OTHER -> a

CheckTMax(a) ==
  IF a.cfg.tmax >= 0 /\ a.t > a.cfg.tmax THEN [a EXCEPT !.complete = TRUE] ELSE a

NativeInit(c) ==
  SamplingStep([live |-> TRUE, cfg |-> c, t |-> 0, n |-> 0, pos |-> 0, done |-> FALSE,
                lastq |-> -1, complete |-> FALSE, stepT |-> <<0>>,
                recT |-> <<>>, recN |-> <<>>, recBy |-> <<>>])

Advance(a, d) ==                           \* state update; t += d; SamplingStep; CheckTMax
  CheckTMax(SamplingStep([a EXCEPT !.t = @ + d, !.n = @ + 1, !.stepT = Append(@, a.t + d)]))

CanStep(a) == a.cfg.death < 0 \/ a.n < a.cfg.death
CanDie(a)  == a.cfg.death = -1 \/ a.cfg.death = a.n

Iter1Set(a) ==                             \* all possible results of one native Iterate()
  LET a0 == [a EXCEPT !.done = FALSE]
  IN  IF a.complete THEN {a0}
      ELSE IF a.cfg.kind = "fixed" THEN {Advance(a0, a.cfg.dt)}
      ELSE (IF CanDie(a) THEN {[a0 EXCEPT !.complete = TRUE]} ELSE {})
           \cup (IF CanStep(a) THEN {Advance(a0, d) : d \in Deltas} ELSE {})

RECURSIVE IterNSet(_, _)
IterNSet(a, k) ==                          \* for(i<k){unfinished = Iterate(); if(!unfinished) break;}
  IF k = 0 THEN {a}
  ELSE UNION {IF b.complete THEN {b} ELSE IterNSet(b, k - 1) : b \in Iter1Set(a)}

(* ---------------- LibRDEngine methods --------------------------------- *)

Live(e) == alg[Own(e)].live

Setup(e, c) ==
  /\ ~undef
  /\ alg' = [alg EXCEPT ![Own(e)] = NativeInit(c)]
  /\ unf' = [unf EXCEPT ![e] = TRUE]
  /\ has' = [has EXCEPT ![e] = TRUE]
  /\ undef' = undef
  /\ obs' = [call |-> "setup", obj |-> e, ns |-> Len(alg'[Own(e)].recT), t |-> 0]

IterTo(e, b, call) ==
  /\ alg' = [alg EXCEPT ![Own(e)] = b]
  /\ unf' = [unf EXCEPT ![e] = ~b.complete]
  /\ UNCHANGED <<has, undef>>
  /\ obs' = [call |-> call, obj |-> e, ret |-> ~b.complete, ns |-> Len(b.recT), t |-> b.t]

Iterate(e) ==
  /\ ~undef /\ has[e] /\ Live(e)
  /\ \E b \in Iter1Set(alg[Own(e)]) : IterTo(e, b, "iterate")

IterateN(e, k) ==                           \* k >= 0 ; zero iterations report the current status
  /\ ~undef /\ has[e] /\ Live(e)
  /\ IF k = 0          \* nothing is iterated: the object reports the status it last saw
     THEN /\ UNCHANGED core
          /\ obs' = [call |-> "iterate_n", obj |-> e, ret |-> unf[e], ns |-> Len(alg[Own(e)].recT), t |-> alg[Own(e)].t]
     ELSE \E b \in IterNSet(alg[Own(e)], k) : IterTo(e, b, "iterate_n")

Run(e, J) ==                                \* wall-clock bounded: some number j >= 1 of iterations
  /\ ~undef /\ has[e] /\ Live(e)
  /\ \E j \in J : \E b \in IterNSet(alg[Own(e)], j) : IterTo(e, b, "run")

SampleCall(e) ==
  /\ ~undef /\ has[e] /\ Live(e)
  /\ alg' = [alg EXCEPT ![Own(e)] = SampleRec(@, "manual")]
  /\ UNCHANGED <<unf, has, undef>>
  /\ obs' = [call |-> "sample", obj |-> e, ns |-> Len(alg'[Own(e)].recT), t |-> alg[Own(e)].t]

GetProgress(e) ==                           \* 100*t/t_max if t_max > 0 else 0; reported as the pair <<t, tmax>>
  /\ ~undef /\ has[e] /\ Live(e)
  /\ UNCHANGED core
  /\ LET a == alg[Own(e)]
     IN obs' = [call |-> "get_progress", obj |-> e,
                pnum |-> IF a.cfg.tmax > 0 THEN a.t ELSE 0,
                ns |-> Len(a.recT), t |-> a.t]

IsComplete(e) ==
  /\ ~undef /\ has[e]
  /\ UNCHANGED core
  /\ obs' = [call |-> "is_complete", obj |-> e, ret |-> ~unf[e]]

GetOutput(e) ==
  /\ ~undef /\ has[e] /\ Live(e)
  /\ UNCHANGED core
  /\ LET a == alg[Own(e)]
     IN obs' = [call |-> "get_output", obj |-> e, recT |-> a.recT, recN |-> a.recN,
                ns |-> Len(a.recT), t |-> a.t]

Finalize(e) ==                              \* safe at any point, any number of times
  /\ ~undef
  /\ alg' = [alg EXCEPT ![Own(e)].live = FALSE]
  /\ UNCHANGED <<unf, has, undef>>
  /\ obs' = [call |-> "finalize", obj |-> e]

(* The caller lets go of the engine OBJECT (it is garbage-collected); a later set-up under the same name uses a new   *)
(* object.  Letting go of an object is not a call of the library: no simulation - its own or another object's - is    *)
(* touched (LibRDEngine has no destructor).                                                                           *)
Drop(e) ==
  /\ ~undef
  /\ has' = [has EXCEPT ![e] = FALSE]
  /\ unf' = [unf EXCEPT ![e] = TRUE]
  /\ UNCHANGED <<alg, undef>>
  /\ obs' = [call |-> "drop", obj |-> e]

(* The environment: the caller goes on using ITS script object after handing it to a set-up (edits the state and the     *)
(* requested times in place, puts another system into it).  The engine works on its own copy, so nothing the library holds *)
(* changes: what an observer reads afterwards (number of records, time) is what it would have read before.                 *)
CallerEdits(e) ==
  /\ ~undef /\ has[e] /\ Live(e)
  /\ UNCHANGED <<alg, unf, has, undef>>
  /\ obs' = [call |-> "caller_edits", obj |-> e, ns |-> Len(alg[Own(e)].recT), t |-> alg[Own(e)].t]

(* Sharing = "global" only: a call that dereferences a deleted simulation.   *)
Undefined(e) ==
  /\ Sharing = "global" /\ ~undef /\ has[e] /\ ~Live(e)
  /\ undef' = TRUE
  /\ UNCHANGED <<alg, unf, has>>
  /\ obs' = [call |-> "undefined", obj |-> e]

Init ==
  /\ alg = [s \in Slot |-> NoAlgo]
  /\ unf = [e \in Objects |-> TRUE]
  /\ has = [e \in Objects |-> FALSE]
  /\ undef = FALSE
  /\ obs = [call |-> "init"]

(* ---------------- the sampling contract (what the user relies on) ------ *)
(* stated over the sequence of step times the behaviour produced,           *)
(* independently of the mechanism above                                     *)

Min(S) == CHOOSE x \in S : \A y \in S : x <= y

T(a, k)         == a.stepT[k + 1]
Steps(a)        == 0..a.n
RecIdx(a)       == 1..Len(a.recT)
PolicyIdx(a)    == {i \in RecIdx(a) : a.recBy[i] = "policy"}
PolicySteps(a)  == {a.recN[i] : i \in PolicyIdx(a)}
RecSteps(a)     == {a.recN[i] : i \in RecIdx(a)}
FirstAtOrAfter(a, tau) ==
  LET S == {k \in Steps(a) : T(a, k) >= tau} IN IF S = {} THEN {} ELSE {Min(S)}
Allowed(a)  == UNION {FirstAtOrAfter(a, a.cfg.ts[q]) : q \in 1..Len(a.cfg.ts)}
QAt(a, k)   == IF a.cfg.qs = <<>> THEN T(a, k) \div a.cfg.interval
               ELSE IF k >= 0 /\ k + 1 <= Len(a.cfg.qs) THEN a.cfg.qs[k + 1] ELSE -1

Shape(a)        == Len(a.recT) = Len(a.recN) /\ Len(a.recN) = Len(a.recBy)
StepTimes(a)    == /\ Len(a.stepT) = a.n + 1 /\ a.stepT[1] = 0 /\ a.t = a.stepT[a.n + 1]
                   /\ \A k \in 1..a.n : a.stepT[k + 1] > a.stepT[k]
RecIsStep(a)    == \A i \in RecIdx(a) : a.recN[i] \in Steps(a) /\ a.recT[i] = T(a, a.recN[i])
T0Record(a)     == \A i \in RecIdx(a) : a.recN[i] = 0 => a.recT[i] = 0
PolicyMono(a)   == \A i, j \in PolicyIdx(a) : i < j => a.recT[i] < a.recT[j]
AllMono(a)      == \A i \in RecIdx(a) : i > 1 => a.recT[i - 1] <= a.recT[i]
OnePerStep(a)   == \A i, j \in PolicyIdx(a) : i # j => a.recN[i] # a.recN[j]
OnTSample(a)    == a.cfg.policy = 0 =>
                     /\ PolicySteps(a) \subseteq Allowed(a)
                     /\ Allowed(a) \subseteq RecSteps(a)
OnTSampleEnd(a) == (a.cfg.policy = 0 /\ a.complete /\ a.cfg.kind = "fixed") =>
                     \A q \in 1..Len(a.cfg.ts) :
                        a.cfg.ts[q] <= a.cfg.tmax =>
                          /\ FirstAtOrAfter(a, a.cfg.ts[q]) # {}
                          /\ FirstAtOrAfter(a, a.cfg.ts[q]) \subseteq RecSteps(a)
OnIteration(a)  == a.cfg.policy = 1 => PolicySteps(a) = Steps(a)
OnInterval(a)   == a.cfg.policy = 2 =>
                     PolicySteps(a) = {k \in Steps(a) : k = 0 \/ QAt(a, k) > QAt(a, k - 1)}
NoSampling(a)   == a.cfg.policy = 3 => PolicyIdx(a) = {}
FixedEnd(a)     == (a.cfg.kind = "fixed" /\ a.cfg.tmax >= 0) =>
                     /\ a.t = a.n * a.cfg.dt
                     /\ a.complete <=> (a.n * a.cfg.dt > a.cfg.tmax)
                     /\ a.n > 0 => (a.n - 1) * a.cfg.dt <= a.cfg.tmax
GillEnd(a)      == (a.cfg.kind = "gill" /\ a.complete) =>
                     \/ (a.cfg.tmax >= 0 /\ a.t > a.cfg.tmax)
                     \/ CanDie(a)
PosRange(a)     == a.pos \in 0..Len(a.cfg.ts)

Contract(a) ==
  /\ Shape(a) /\ StepTimes(a) /\ RecIsStep(a) /\ T0Record(a) /\ PolicyMono(a) /\ AllMono(a)
  /\ OnePerStep(a) /\ OnTSample(a) /\ OnTSampleEnd(a) /\ OnIteration(a) /\ OnInterval(a)
  /\ NoSampling(a) /\ FixedEnd(a) /\ GillEnd(a) /\ PosRange(a)

LiveAlgs == {alg[s] : s \in {x \in Slot : alg[x].live}}

InvShape        == \A a \in LiveAlgs : Shape(a)
InvStepTimes    == \A a \in LiveAlgs : StepTimes(a)
InvRecIsStep    == \A a \in LiveAlgs : RecIsStep(a)
InvT0Record     == \A a \in LiveAlgs : T0Record(a)
InvPolicyMono   == \A a \in LiveAlgs : PolicyMono(a)
InvAllMono      == \A a \in LiveAlgs : AllMono(a)
InvOnePerStep   == \A a \in LiveAlgs : OnePerStep(a)
InvOnTSample    == \A a \in LiveAlgs : OnTSample(a)
InvOnTSampleEnd == \A a \in LiveAlgs : OnTSampleEnd(a)
InvOnIteration  == \A a \in LiveAlgs : OnIteration(a)
InvOnInterval   == \A a \in LiveAlgs : OnInterval(a)
InvNoSampling   == \A a \in LiveAlgs : NoSampling(a)
InvFixedEnd     == \A a \in LiveAlgs : FixedEnd(a)
InvGillEnd      == \A a \in LiveAlgs : GillEnd(a)
InvPosRange     == \A a \in LiveAlgs : PosRange(a)

(* ---------------- lifecycle contract ----------------------------------- *)

(* The status an engine object reports is the completion of its current set-up. *)
InvStatusCurrent ==
  Sharing = "perObject" => \A e \in Objects : (has[e] /\ alg[e].live) => (unf[e] = ~alg[e].complete)

InvNoUndefined == Sharing = "perObject" => ~undef

IterCalls == {"iterate", "iterate_n", "run"}

(* A completed simulation stays completed until a new set-up. *)
StickyCompleteA ==
  obs'.call # "setup" =>
       \A s \in Slot : (alg[s].live /\ alg[s].complete /\ alg'[s].live) => alg'[s].complete
StickyComplete == [][StickyCompleteA]_vars

(* Iterating a completed simulation changes nothing but the per-iteration flag. *)
IdleAfterDoneA ==
  obs'.call \in IterCalls =>
       LET s == Own(obs'.obj)
       IN  (alg[s].live /\ alg[s].complete) => (alg'[s] = [alg[s] EXCEPT !.done = FALSE] \/ alg'[s] = alg[s])
IdleAfterDone == [][IdleAfterDoneA]_vars

(* Only iterations advance the simulation; observers are read-only;          *)
(* a manual sample only appends a record.                                    *)
OnlyIterationsAdvanceA ==
  \A s \in Slot :
       (alg'[s].n # alg[s].n \/ alg'[s].t # alg[s].t \/ alg'[s].complete # alg[s].complete)
          => obs'.call \in (IterCalls \cup {"setup"})
OnlyIterationsAdvance == [][OnlyIterationsAdvanceA]_vars

ObserversReadOnlyA ==
  obs'.call \in {"get_progress", "is_complete", "get_output"} => UNCHANGED core
ObserversReadOnly == [][ObserversReadOnlyA]_vars

ManualRuleA ==
  obs'.call = "sample" =>
       LET s == Own(obs'.obj)
       IN  IF alg[s].done THEN alg'[s] = alg[s]
           ELSE /\ Len(alg'[s].recT) = Len(alg[s].recT) + 1
                /\ alg'[s].recT[Len(alg'[s].recT)] = alg[s].t
                /\ alg'[s].recBy[Len(alg'[s].recT)] = "manual"
ManualRule == [][ManualRuleA]_vars

(* Engine objects are independent: a call on one leaves the other's simulation alone. *)
IsolationA ==
  Sharing = "perObject" =>
       \A e \in Objects : (obs'.call # "init" /\ obs'.obj # e) => (alg'[e] = alg[e] /\ unf'[e] = unf[e])
Isolation == [][IsolationA]_vars

CleanSlateA ==
  obs'.call = "setup" =>
       \E s \in Slot : alg'[s] = NativeInit(alg'[s].cfg) /\ alg'[s].live
CleanSlate == [][CleanSlateA]_vars

AllInv ==
  /\ InvShape /\ InvStepTimes /\ InvRecIsStep /\ InvT0Record /\ InvPolicyMono /\ InvAllMono /\ InvOnePerStep
  /\ InvOnTSample /\ InvOnTSampleEnd /\ InvOnIteration /\ InvOnInterval /\ InvNoSampling /\ InvFixedEnd
  /\ InvGillEnd /\ InvPosRange /\ InvStatusCurrent
AllAct ==
  /\ StickyCompleteA /\ IdleAfterDoneA /\ OnlyIterationsAdvanceA /\ ObserversReadOnlyA /\ ManualRuleA
  /\ IsolationA /\ CleanSlateA
=============================================================================
