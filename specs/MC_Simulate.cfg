SPECIFICATION DSpec
CONSTANTS
  Objects = {"e1"}
  Sharing = "perObject"
  Deltas = {1, 2}
  DriverObj = "e1"
  DConfigs <- SConfigs
  MaxJ = 3
INVARIANT ReturnsCompletedRun
INVARIANT NeverTouchesReleased
INVARIANT LoopOnlyWhileUnfinished
PROPERTY Terminates
