SPECIFICATION RSpec
CONSTANTS
  MaxTerms = 2
  MaxTerms2 = 1
  Emit = TRUE
INVARIANT RoundTripTight
INVARIANT RoundTripLoose
INVARIANT PrintParse
INVARIANT PrintStable
INVARIANT OrderIsSum
INVARIANT NetIsDiff
INVARIANT ReverseSwaps
INVARIANT Emitted
