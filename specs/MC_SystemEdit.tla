---------------------------- MODULE MC_SystemEdit ----------------------------
(* SystemEdit on a three-cell, two-species, two-environment system: every history of Depth calls *)
EXTENDS SystemEdit
T(v) == [v |-> MInt(v)]
B(b) == [v |-> b]
MCCellEnv == <<0, 1, 0>>
MCVol == <<1, 2, 3>>
MCVolGrid == <<2, 2, 2>>
MCDensTabs == {<<T(1), T(1), T(1)>>, <<T(2), None, None>>, <<None, T(3), None>>, <<None, None, None>>}
MCChsTabs == {<<B(FALSE), B(FALSE), B(FALSE)>>, <<B(TRUE), B(TRUE), B(TRUE)>>, <<None, None, B(TRUE)>>}
MCVals == {2, 5}
MCVolVals == {1, 2, 3}
MCQUnits == {"molecule", "nmol"}
=============================================================================
