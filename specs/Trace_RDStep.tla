---------------------------- MODULE Trace_RDStep ----------------------------
(* Trace validation of stochastic runs recorded with sampling_policy =          *)
(* on_iteration: every consecutive pair of recorded states of a Gillespie run    *)
(* must be exactly one event that was possible in the earlier state (C07); the   *)
(* run may only stop when no event is possible or t_max is passed; conservation  *)
(* laws (C02), chemostats (C03) and non-negativity are evaluated in every state. *)
(* tau-leap traces are checked for the invariants only.                          *)
EXTENDS RDStep, Json, IOUtils, TLC

Traces == JsonDeserialize(IOEnv.TRACE_FILE)

VARIABLES tid, l, cf, x
tv == <<tid, l, cf, x>>

Rq(p) == <<p[1], p[2]>>
MkCfg(t) ==      \* derive the neighbour table from the geometry, read the rest
  LET g == t.space
      nbr == IF g.type = "grid" THEN GridNbr(g.w, g.h, g.d, g.bc, g.hh)
             ELSE GraphNbr(t.nC, [e \in 1..Len(g.edges) |->
                    [i |-> g.edges[e].i, j |-> g.edges[e].j, sfc |-> Rq(g.edges[e].sfc), dst |-> Rq(g.edges[e].dst)]])
  IN  [nC |-> t.nC, nS |-> t.nS, nR |-> t.nR, sub |-> t.sub, sto |-> t.sto, env |-> t.env,
       k |-> [e \in 1..Len(t.k) |-> [r \in 1..t.nR |-> Rq(t.k[e][r])]],
       D |-> [s \in 1..t.nS |-> [e \in 1..Len(t.D[s]) |-> Rq(t.D[s][e])]],
       h |-> t.h, nbr |-> nbr, chs |-> t.chs]

St(t, n) == t.states[n]

TInit == /\ tid \in 1..Len(Traces) /\ l = 1
         /\ cf = MkCfg(Traces[tid]) /\ x = St(Traces[tid], 1)

TNext ==
  /\ l < Len(Traces[tid].states)
  /\ LET y == St(Traces[tid], l + 1)
     IN  /\ (Traces[tid].kind = "gillespie" => GStep(cf, x, y))
         /\ x' = y
  /\ l' = l + 1 /\ UNCHANGED <<tid, cf>>

TSpec == TInit /\ [][TNext]_tv

(* state clauses, as operators over explicit arguments (tr = the trace, n = position, y = state there) *)
CNonNeg(tr, c, n, y)    == tr.kind = "gillespie" => NonNeg(c, y)
CConserved(tr, c, n, y) == Conserved(c, St(tr, 1), y)
CChemostat(tr, c, n, y) == ChemostatsHeld(c, St(tr, 1), y)
(* a gillespie run that ended before t_max ended because nothing could happen *)
CDeath(tr, c, n, y)     == (n = Len(tr.states) /\ tr.kind = "gillespie" /\ tr.died) => A0IsZero(c, y)
CTime(tr)               == tr.tinc          \* recorded times start at 0 and strictly increase
CIntegral(tr)           == tr.integral      \* every recorded amount is an integer
CAll(tr, c, n, y) == /\ CNonNeg(tr, c, n, y) /\ CConserved(tr, c, n, y) /\ CChemostat(tr, c, n, y)
                     /\ CDeath(tr, c, n, y) /\ CTime(tr) /\ CIntegral(tr)

InvNonNeg         == CNonNeg(Traces[tid], cf, l, x)
InvConserved      == CConserved(Traces[tid], cf, l, x)
InvChemostat      == CChemostat(Traces[tid], cf, l, x)
InvDeath          == CDeath(Traces[tid], cf, l, x)
InvTimeIncreasing == CTime(Traces[tid])
InvIntegral       == CIntegral(Traces[tid])

(* batch mode: clauses folded into the step so one bad trace does not stop the batch *)
TInitChecked == TInit /\ CAll(Traces[tid], cf, 1, x)
TNextChecked ==
  /\ l < Len(Traces[tid].states)
  /\ LET y == St(Traces[tid], l + 1)
     IN  /\ (Traces[tid].kind = "gillespie" => GStep(cf, x, y))
         /\ CAll(Traces[tid], cf, l + 1, y)
         /\ x' = y
  /\ l' = l + 1 /\ UNCHANGED <<tid, cf>>
TSpecChecked == TInitChecked /\ [][TNextChecked]_tv
Accepted == (l = Len(Traces[tid].states)) => PrintT(<<"ACCEPTED", Traces[tid].id>>)
Progress == PrintT(<<"REACHED", Traces[tid].id, l>>)
=============================================================================
