-------------------------- MODULE MC_EngineLifecycle --------------------------
(* Exhaustive exploration of LibRDEngine call sequences (C10, C08): every       *)
(* interleaving of the nine lifecycle calls on one or two engine objects over   *)
(* three small configurations, within a depth bound.                            *)
EXTENDS Engine

CONSTANTS MaxDepth, MaxK

C1 == [kind |-> "fixed", dt |-> 2, tmax |-> 3, policy |-> 0, interval |-> 1, ts |-> <<0, 3>>, qs |-> <<>>, death |-> -2]
C2 == [kind |-> "fixed", dt |-> 1, tmax |-> 2, policy |-> 2, interval |-> 2, ts |-> <<2>>, qs |-> <<>>, death |-> -2]
C3 == [kind |-> "gill",  dt |-> 0, tmax |-> 4, policy |-> 1, interval |-> 1, ts |-> <<4>>, qs |-> <<>>, death |-> -1]
LConfigs == {C1, C2, C3}

LNext ==
  \E e \in Objects :
     \/ \E c \in LConfigs : Setup(e, c)
     \/ Iterate(e)
     \/ \E k \in 0..MaxK : IterateN(e, k)
     \/ Run(e, 1..MaxK)
     \/ SampleCall(e)
     \/ GetProgress(e)
     \/ IsComplete(e)
     \/ GetOutput(e)
     \/ Finalize(e)
     \/ Drop(e)
     \/ CallerEdits(e)
     \/ Undefined(e)

LSpec == Init /\ [][LNext]_vars

LBound == TLCGet("level") <= MaxDepth
LView == core

(* ---- liveness: a set-up simulation that keeps being iterated completes ---- *)
LiveInit ==
  /\ \E c \in LConfigs : alg = [s \in Slot |-> NativeInit(c)]
  /\ unf = [e \in Objects |-> TRUE] /\ has = [e \in Objects |-> TRUE]
  /\ undef = FALSE /\ obs = [call |-> "init"]
LiveNext == \E e \in Objects : Iterate(e) \/ GetProgress(e) \/ IsComplete(e) \/ (\E k \in 1..MaxK : IterateN(e, k))
Iterating == \E e \in Objects : Iterate(e) \/ (\E k \in 1..MaxK : IterateN(e, k))
LiveSpec == LiveInit /\ [][LiveNext]_vars /\ WF_vars(Iterating)
Terminates == <>(\A s \in Slot : alg[s].complete)
(* fixed-step runs complete after exactly ceil-ish(tmax/dt) steps *)
StepBound == \A a \in LiveAlgs : (a.cfg.kind = "fixed" /\ a.cfg.tmax >= 0) => a.n <= (a.cfg.tmax \div a.cfg.dt) + 1
=============================================================================
