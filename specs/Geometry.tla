------------------------------ MODULE Geometry ------------------------------
(* Grid geometry of strengths (C15): index <-> coordinates, bounds, and the    *)
(* neighbour structure given three ways:                                       *)
(*   EngineNbr     the arithmetic of SimulationAlgorithm3DBase::GetNeighborIndex*)
(*   AreNeighbors  wrapped Manhattan distance 1 (RDGridSpace.are_neighbors)     *)
(*   NeighborList  the list RDGridSpace.get_neighbors builds (with multiplicity)*)
(* plus the graph a grid converts to (coarsegrain.grid_to_graph).               *)
(* Cells are 0-based here, as in the code. bc[a] = TRUE means axis a periodic.   *)
EXTENDS Integers, Sequences, FiniteSets

Size(w, h, d)     == w * h * d
Cells(w, h, d)    == 0..(w * h * d - 1)
Idx(w, h, x, y, z) == z * w * h + y * w + x
CX(w, h, i)       == i % w
CY(w, h, i)       == (i % (w * h)) \div w
CZ(w, h, i)       == i \div (w * h)
InBoundsXYZ(w, h, d, x, y, z) == x >= 0 /\ x < w /\ y >= 0 /\ y < h /\ z >= 0 /\ z < d
InBoundsIdx(w, h, d, i)       == i >= 0 /\ i < w * h * d

Dirs == 0..5
DX(dir) == CASE dir = 0 -> 1 [] dir = 1 -> -1 [] OTHER -> 0
DY(dir) == CASE dir = 2 -> 1 [] dir = 3 -> -1 [] OTHER -> 0
DZ(dir) == CASE dir = 4 -> 1 [] dir = 5 -> -1 [] OTHER -> 0

(* GetNeighborIndex: step, wrap periodic axes with (n + x) % n, test bounds *)
EngineNbr(w, h, d, bc, i, dir) ==
  LET x0 == CX(w, h, i) + DX(dir)
      y0 == CY(w, h, i) + DY(dir)
      z0 == CZ(w, h, i) + DZ(dir)
      x1 == IF bc[1] THEN (w + x0) % w ELSE x0
      y1 == IF bc[2] THEN (h + y0) % h ELSE y0
      z1 == IF bc[3] THEN (d + z0) % d ELSE z0
  IN  IF InBoundsXYZ(w, h, d, x1, y1, z1) THEN Idx(w, h, x1, y1, z1) ELSE -1

RECURSIVE FilterNeg(_)
FilterNeg(s) == IF s = <<>> THEN <<>>
                ELSE IF Head(s) = -1 THEN FilterNeg(Tail(s)) ELSE <<Head(s)>> \o FilterNeg(Tail(s))

(* the engine's neighbour list of cell i: directions 0..5 that lead somewhere, with multiplicity *)
EngineNbrSeq(w, h, d, bc, i) == FilterNeg([dir \in 1..6 |-> EngineNbr(w, h, d, bc, i, dir - 1)])

AbsI(x) == IF x < 0 THEN -x ELSE x
MinI(a, b) == IF a < b THEN a ELSE b
AxisDist(n, per, a, b) == LET r == AbsI(a - b) IN IF per THEN MinI(r, AbsI(n - r)) ELSE r

(* are_neighbors: wrapped Manhattan distance exactly 1 *)
AreNeighbors(w, h, d, bc, i, j) ==
  AxisDist(w, bc[1], CX(w, h, i), CX(w, h, j)) + AxisDist(h, bc[2], CY(w, h, i), CY(w, h, j))
    + AxisDist(d, bc[3], CZ(w, h, i), CZ(w, h, j)) = 1

(* get_neighbors: the list the Python code builds, in its order *)
NeighborList(w, h, d, bc, i) ==
  LET x == CX(w, h, i)  y == CY(w, h, i)  z == CZ(w, h, i)
      opt(c, v) == IF c THEN <<v>> ELSE <<>>
  IN  opt(x > 0, Idx(w, h, x - 1, y, z)) \o opt(y > 0, Idx(w, h, x, y - 1, z)) \o opt(z > 0, Idx(w, h, x, y, z - 1))
      \o opt(x < w - 1, Idx(w, h, x + 1, y, z)) \o opt(y < h - 1, Idx(w, h, x, y + 1, z)) \o opt(z < d - 1, Idx(w, h, x, y, z + 1))
      \o opt(bc[1] /\ x = 0, Idx(w, h, w - 1, y, z)) \o opt(bc[2] /\ y = 0, Idx(w, h, x, h - 1, z)) \o opt(bc[3] /\ z = 0, Idx(w, h, x, y, d - 1))
      \o opt(bc[1] /\ x = w - 1, Idx(w, h, 0, y, z)) \o opt(bc[2] /\ y = h - 1, Idx(w, h, x, 0, z)) \o opt(bc[3] /\ z = d - 1, Idx(w, h, x, y, 0))

Count(s, v) == Cardinality({k \in 1..Len(s) : s[k] = v})
SetOf(s)    == {s[k] : k \in 1..Len(s)}

(* grid_to_graph: edges in the order the code emits them; each edge <<i, j>> *)
RECURSIVE SeqCat(_)
SeqCat(ss) == IF ss = <<>> THEN <<>> ELSE Head(ss) \o SeqCat(Tail(ss))
InnerEdges(w, h, d) ==
  SeqCat([c \in 1..(w * h * d) |->
     LET i == c - 1  x == CX(w, h, i)  y == CY(w, h, i)  z == CZ(w, h, i)
     IN  (IF x < w - 1 THEN <<<<i, Idx(w, h, x + 1, y, z)>>>> ELSE <<>>)
      \o (IF y < h - 1 THEN <<<<i, Idx(w, h, x, y + 1, z)>>>> ELSE <<>>)
      \o (IF z < d - 1 THEN <<<<i, Idx(w, h, x, y, z + 1)>>>> ELSE <<>>)])
WrapEdgesX(w, h, d) == SeqCat([c \in 1..(h * d) |-> LET y == (c - 1) % h  z == (c - 1) \div h IN <<<<Idx(w, h, w - 1, y, z), Idx(w, h, 0, y, z)>>>>])
WrapEdgesY(w, h, d) == SeqCat([c \in 1..(w * d) |-> LET x == (c - 1) % w  z == (c - 1) \div w IN <<<<Idx(w, h, x, h - 1, z), Idx(w, h, x, 0, z)>>>>])
WrapEdgesZ(w, h, d) == SeqCat([c \in 1..(w * h) |-> LET x == (c - 1) % w  y == (c - 1) \div w IN <<<<Idx(w, h, x, y, d - 1), Idx(w, h, x, y, 0)>>>>])
GridGraphEdges(w, h, d, bc) ==
  InnerEdges(w, h, d) \o (IF bc[1] THEN WrapEdgesX(w, h, d) ELSE <<>>)
                      \o (IF bc[2] THEN WrapEdgesY(w, h, d) ELSE <<>>)
                      \o (IF bc[3] THEN WrapEdgesZ(w, h, d) ELSE <<>>)

(* neighbour list of node i in a graph given by an edge sequence (SetNeighbors order) *)
EdgeNbrSeq(edges, i) ==
  SeqCat([e \in 1..Len(edges) |->
     (IF edges[e][1] = i THEN <<edges[e][2]>> ELSE <<>>) \o (IF edges[e][2] = i THEN <<edges[e][1]>> ELSE <<>>)])
=============================================================================
