SPECIFICATION TraceSpec
CONSTANTS
  Objects = {"e1"}
  Sharing = "perObject"
  Deltas = {2}
  DriverObj = "e1"
  DConfigs = {}
  MaxJ = 1
INVARIANT Accepted
