SPECIFICATION Spec
CONSTANTS
  Depth = 3
  Emit = TRUE
INVARIANT Refinement
INVARIANT Emitted
