SPECIFICATION LSpec
CONSTANTS
  MaxNs = 3
  MaxS = 3
  MaxN = 4
  MaxLen = 4
  MaxT = 4
  Emit = TRUE
INVARIANT ShapeOK
INVARIANT LookupInf
INVARIANT LookupSup
INVARIANT LookupClosest
INVARIANT EditOK
INVARIANT Emitted
