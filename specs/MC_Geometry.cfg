SPECIFICATION GSpec
CONSTANTS
  MaxSide = 3
  Emit = TRUE
INVARIANT Bijection
INVARIANT SameLists
INVARIANT Symmetric
INVARIANT PairTest
INVARIANT Degree
INVARIANT GraphSame
INVARIANT ShortAxes
INVARIANT Emitted
