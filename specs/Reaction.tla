------------------------------ MODULE Reaction ------------------------------
(* Reaction equations (C19).  A side is a sequence of terms [c, l]: coefficient      *)
(* (-1 = not written, meaning 1) and species label.  Text is a sequence of tokens:    *)
(*   <<"n", k>> a written integer, <<"l", label>>, <<"+">>, <<"->">>, <<" ">> (blank run) *)
(* Parse follows Reaction._fromstring: split at "->" (exactly one), split each side  *)
(* at "+", split each piece at blanks; one word = label, two words = integer label.    *)
EXTENDS Integers, Sequences, FiniteSets, TLC

Coef(t) == IF t.c = -1 THEN 1 ELSE t.c
RECURSIVE SumCoef(_, _)
SumCoef(side, l) == IF side = <<>> THEN 0 ELSE (IF Head(side).l = l THEN Coef(Head(side)) ELSE 0) + SumCoef(Tail(side), l)
LabelsOf(side) == {side[i].l : i \in 1..Len(side)}
(* stoichiometry of a side: repeats summed; a species with total 0 still "appears" in the dictionary *)
Stoich(side) == [l \in LabelsOf(side) |-> SumCoef(side, l)]
RECURSIVE Order(_)
Order(side) == IF side = <<>> THEN 0 ELSE Coef(Head(side)) + Order(Tail(side))
Net(sub, prod, l) == SumCoef(prod, l) - SumCoef(sub, l)
KDim(n) == <<3 * n - 3, -1, 1 - n>>       \* amount^(1-n) length^(3n-3) / time

(* ---- text ---- *)
RECURSIVE Cat(_)
Cat(ss) == IF ss = <<>> THEN <<>> ELSE Head(ss) \o Cat(Tail(ss))
Sp(b) == IF b THEN <<<<" ">>>> ELSE <<>>
(* spacing style: "tight" (blanks only where needed), "loose" (blanks everywhere) *)
RenderTerm(t, loose) == (IF t.c = -1 THEN <<>> ELSE <<<<"n", t.c>>, <<" ">>>>) \o <<<<"l", t.l>>>>
RenderSide(side, loose) ==
  Cat([i \in 1..Len(side) |-> (IF i > 1 THEN Sp(loose) \o <<<<"+">>>> \o Sp(loose) ELSE Sp(loose)) \o RenderTerm(side[i], loose)])
Render(sub, prod, loose) == RenderSide(sub, loose) \o Sp(loose) \o <<<<"->">>>> \o Sp(loose) \o RenderSide(prod, loose) \o Sp(loose)

(* to_string: per species in first-appearance order, zero totals omitted, coefficient 1 not written *)
RECURSIVE FirstOrder(_, _)
FirstOrder(side, seen) == IF side = <<>> THEN <<>>
                          ELSE IF Head(side).l \in seen THEN FirstOrder(Tail(side), seen)
                          ELSE <<Head(side).l>> \o FirstOrder(Tail(side), seen \cup {Head(side).l})
PrintSide(side) ==
  LET ls == FirstOrder(side, {})
      nz == SelectSeq(ls, LAMBDA l : SumCoef(side, l) # 0)
  IN  Cat([i \in 1..Len(nz) |->
         (IF i > 1 THEN <<<<"+">>, <<" ">>>> ELSE <<>>)
         \o (IF SumCoef(side, nz[i]) # 1 THEN <<<<"n", SumCoef(side, nz[i])>>, <<" ">>>> ELSE <<>>)
         \o <<<<"l", nz[i]>>, <<" ">>>>])
PrintEq(sub, prod) == PrintSide(sub) \o <<<<"->">>, <<" ">>>> \o PrintSide(prod)

(* ---- parsing a token text ---- *)
RECURSIVE SplitAt(_, _, _)
SplitAt(toks, sep, cur) == IF toks = <<>> THEN <<cur>>
                           ELSE IF Head(toks) = sep THEN <<cur>> \o SplitAt(Tail(toks), sep, <<>>)
                           ELSE SplitAt(Tail(toks), sep, Append(cur, Head(toks)))
Words(piece) == SelectSeq(piece, LAMBDA t : t # <<" ">>)
(* a word read as a label: a written integer used as a name is the same text *)
AsLabel(w) == IF w[1] = "l" THEN w[2] ELSE w[2]
ParsePiece(piece) ==      \* [ok, empty, term]
  LET ws == Words(piece) IN
  IF Len(ws) = 0 THEN [ok |-> TRUE, empty |-> TRUE, term |-> [c |-> -1, l |-> ""]]
  ELSE IF Len(ws) = 1 THEN [ok |-> TRUE, empty |-> FALSE, term |-> [c |-> -1, l |-> AsLabel(ws[1])]]
  ELSE IF Len(ws) = 2 /\ ws[1][1] = "n" THEN [ok |-> TRUE, empty |-> FALSE, term |-> [c |-> ws[1][2], l |-> AsLabel(ws[2])]]
  ELSE [ok |-> FALSE, empty |-> FALSE, term |-> [c |-> -1, l |-> ""]]
ParseSide(toks) ==        \* [ok, side]
  LET ps == SplitAt(toks, <<"+">>, <<>>)
      rs == [i \in 1..Len(ps) |-> ParsePiece(ps[i])]
  IN  IF Len(ps) = 1 /\ rs[1].empty THEN [ok |-> TRUE, side |-> <<>>]
      ELSE IF \E i \in 1..Len(rs) : ~rs[i].ok \/ rs[i].empty THEN [ok |-> FALSE, side |-> <<>>]
      ELSE [ok |-> TRUE, side |-> [i \in 1..Len(rs) |-> rs[i].term]]
Parse(toks) ==            \* [ok, sub, prod]
  LET sides == SplitAt(toks, <<"->">>, <<>>) IN
  IF Len(sides) # 2 THEN [ok |-> FALSE, sub |-> <<>>, prod |-> <<>>]
  ELSE LET a == ParseSide(sides[1])  b == ParseSide(sides[2])
       IN  [ok |-> a.ok /\ b.ok, sub |-> a.side, prod |-> b.side]

SameSide(s1, s2) ==       \* same per-species coefficients (species with total 0 are indifferent)
  \A l \in LabelsOf(s1) \cup LabelsOf(s2) : SumCoef(s1, l) = SumCoef(s2, l)
=============================================================================
