------------------------------ MODULE Eval_Units ------------------------------
(* TLC as the oracle for the units properties: exports exact values as JSON.      *)
(*   Mode "scales": scale of every symbol and every same-kind conversion factor     *)
EXTENDS SIMonomial, Json, IOUtils, TLC
Out == IOEnv.OUT_FILE
Mode == IOEnv.MODE

Pairs(units, sc(_)) ==
  [i \in 1..(Len(units) * Len(units)) |->
     LET s == units[((i - 1) \div Len(units)) + 1]  d == units[((i - 1) % Len(units)) + 1]
     IN  [src |-> s, dst |-> d, f |-> [ex \in 1..9 |-> MDiv(MPow(sc(s), ex - 5), MPow(sc(d), ex - 5))]]]

Scales ==
  [space |-> [i \in 1..Len(SpaceUnits) |-> [u |-> SpaceUnits[i], m |-> SpaceScale(SpaceUnits[i])]],
   time  |-> [i \in 1..Len(TimeUnits) |-> [u |-> TimeUnits[i], m |-> TimeScale(TimeUnits[i])]],
   quantity |-> [i \in 1..Len(QtyUnits) |-> [u |-> QtyUnits[i], m |-> QtyScale(QtyUnits[i])]],
   volume |-> [i \in 1..Len(VolumeUnits) |-> [u |-> VolumeUnits[i], m |-> LitreScale(VolumeUnits[i])]],
   density |-> [i \in 1..Len(DensityUnits) |-> [u |-> DensityUnits[i], m |-> MolarScale(DensityUnits[i])]],
   spacePairs |-> Pairs(SpaceUnits, SpaceScale), timePairs |-> Pairs(TimeUnits, TimeScale),
   quantityPairs |-> Pairs(QtyUnits, QtyScale)]

Result == CASE Mode = "scales" -> Scales
ASSUME JsonSerialize(Out, Result)
ASSUME PrintT(<<"EVAL-DONE", Mode>>)
=============================================================================
