----------------------------- MODULE ReactionEdit -----------------------------
(* The rate constants of one Reaction object as a state machine (C19: "bare numbers get exactly these units in the reaction's  *)
(* units system", "splitting it gives two irreversible reactions with the same constants", "the equilibrium constant is their *)
(* ratio"; histories).  One action per public setter / method of rdnetwork.Reaction:                                           *)
(*   SetKf / SetKr   r.kf = number | quantity          SetK      r.set_k(kf, kr)                                                *)
(*   SetUnits        r.units_system = UnitsSystem(...)  (a new units system: constants already stored keep their meaning)        *)
(*   TakeHalf        r = r.split()[h]                   Copy      r = r.copy()                                                  *)
(*   RoundTrip       r = reaction_from_dict(reaction_to_dict(r))     CallerEdits (environment, see SystemEdit)                  *)
(* A constant is an SI monomial; a bare number v handed to a setter under the units system U and for a side of order n stands   *)
(* for v [amount^(1-n) length^(3n-3) / time] of U.                                                                              *)
EXTENDS SIMonomial, Json, TLC

CONSTANTS Eqs,         \* the equations used: records [fo |-> forward order, ro |-> reverse order]
          Systems,     \* units systems <<space, time, quantity>>
          Vals, Depth, Emit

VARIABLES eq, usys, kf, kr, hist, pick
vars == <<eq, usys, kf, kr, hist, pick>>
view == <<eq, usys, kf, kr, Len(hist)>>

KDim(n) == <<3 * n - 3, -1, 1 - n>>
Const(v, sys, n) == MMul(MInt(v), SysScale(sys, KDim(n)))      \* v [k-units of order n in sys], in SI
Bare == <<"bare">>
Sys(u) == IF u = Bare THEN usys ELSE u
Step(op, args) == hist' = Append(hist, [op |-> op, args |-> args, eq0 |-> eq, usys0 |-> usys, eq |-> eq', usys |-> usys', kf |-> kf', kr |-> kr',
                                        K |-> IF kr'.num = 0 THEN [none |-> TRUE] ELSE MDiv(kf', kr')])

Init ==
  /\ eq \in Eqs /\ usys \in Systems
  /\ kf = Const(2, usys, eq.fo) /\ kr = Const(3, usys, eq.ro)      \* Reaction(text, kf=2, kr=3, units_system=usys)
  /\ hist = <<>> /\ pick = "none"

SetKf(v, u) == /\ kf' = Const(v, Sys(u), eq.fo) /\ UNCHANGED <<eq, usys, kr>> /\ Step("set_kf", [v |-> v, u |-> u])
SetKr(v, u) == /\ kr' = Const(v, Sys(u), eq.ro) /\ UNCHANGED <<eq, usys, kf>> /\ Step("set_kr", [v |-> v, u |-> u])
SetK(v, w)  == /\ kf' = Const(v, usys, eq.fo) /\ kr' = Const(w, usys, eq.ro) /\ UNCHANGED <<eq, usys>>
               /\ Step("set_k", [v |-> v, w |-> w])
SetUnits(u) == /\ u # usys /\ usys' = u /\ UNCHANGED <<eq, kf, kr>> /\ Step("set_units", [u |-> u])
(* the forward half keeps the equation and kf, the reverse half has the sides exchanged and kr as its forward constant; *)
(* both are irreversible                                                                                                 *)
TakeHalf(h) ==
  /\ eq' = IF h = 1 THEN eq ELSE [fo |-> eq.ro, ro |-> eq.fo, id |-> eq.id, rev |-> ~eq.rev]
  /\ kf' = IF h = 1 THEN kf ELSE kr
  /\ kr' = MZero
  /\ UNCHANGED usys
  /\ Step("take_half", [h |-> h])
Copy        == UNCHANGED <<eq, usys, kf, kr>> /\ Step("copy", [x |-> 0])
RoundTrip   == UNCHANGED <<eq, usys, kf, kr>> /\ Step("roundtrip", [x |-> 0])
CallerEdits == UNCHANGED <<eq, usys, kf, kr>> /\ Step("caller_edits", [x |-> 0])

US == Systems \cup {Bare}
Kinds == {"set_kf", "set_kr", "set_k", "set_units", "take_half", "copy", "roundtrip", "caller_edits"}
OfKind(k) == CASE k = "set_kf" -> \E v \in Vals, u \in US : SetKf(v, u)
               [] k = "set_kr" -> \E v \in Vals, u \in US : SetKr(v, u)
               [] k = "set_k" -> \E v \in Vals, w \in Vals : SetK(v, w)
               [] k = "set_units" -> \E u \in Systems : SetUnits(u)
               [] k = "take_half" -> \E h \in 1..2 : TakeHalf(h)
               [] k = "copy" -> Copy [] k = "roundtrip" -> RoundTrip [] k = "caller_edits" -> CallerEdits
Next == /\ Len(hist) < Depth /\ pick' = pick /\ \E k \in Kinds : OfKind(k)
GenNext ==
  \/ /\ pick = "none" /\ Len(hist) < Depth /\ pick' \in Kinds /\ UNCHANGED <<eq, usys, kf, kr, hist>>
  \/ /\ pick # "none" /\ pick' = "none" /\ OfKind(pick)
Spec == Init /\ [][Next]_vars
GenSpec == Init /\ [][GenNext]_vars

(* ---- properties ---- *)
(* the SI dimension of a stored constant is the one its side's order demands, whatever units it was stated in *)
DimOf(m, n) == m.num = 0 \/ \E s \in Systems, v \in Vals \cup {2, 3} : m = Const(v, s, n)
DimensionsFollowOrders == DimOf(kf, eq.fo) /\ DimOf(kr, eq.ro)
UnitsChangeKeepsMeaning == [][usys' # usys => (kf' = kf /\ kr' = kr)]_vars
(* the two halves of a split, taken one after the other from copies, carry kf and kr; neither is reversible *)
HalvesCarryTheConstants == [][(hist' # hist /\ hist'[Len(hist')].op = "take_half") =>
                               (kr' = MZero /\ kf' \in {kf, kr})]_vars
Done == Len(hist) = Depth /\ pick = "none"
Emitted == (Emit /\ Done) => PrintT(<<"PROGRAM", ToJson([steps |-> hist])>>)
=============================================================================
