-------------------------------- MODULE Units --------------------------------
(* Arithmetic on quantities (C05), in two layers:                                 *)
(*   abstract  : a quantity is its SI value and its dimension vector; operators      *)
(*               are exact arithmetic on both (what the user relies on)              *)
(*   concrete  : (value, unit system, dimension) with the dispatch rules of          *)
(*               units.py - which operand's system wins, how a plain number is        *)
(*               read, reflected operators, what is refused                           *)
(* and the refinement between them.  Values are monomials (SIMonomial): a small      *)
(* rational times 10^a 6^b NA^c, so conversions between any of the 1100 unit          *)
(* systems stay exact.                                                                *)
EXTENDS SIMonomial, FiniteSets, TLC

Err  == [k |-> "err"]
UV(v, sys, dim)  == [k |-> "uv", v |-> v, sys |-> sys, dim |-> dim]
UA(vs, sys, dim) == [k |-> "ua", vs |-> vs, sys |-> sys, dim |-> dim]
Num(v)           == [k |-> "num", v |-> v]
Bool(b)          == [k |-> "bool", b |-> b]
Irr(base, ex, sys, dim) == [k |-> "irr", base |-> base, ex |-> ex, sys |-> sys, dim |-> dim]   \* base^(ex[1]/ex[2]), not a monomial

IsQ(x)   == x.k \in {"uv", "ua"}
DimAdd(a, b) == <<a[1] + b[1], a[2] + b[2], a[3] + b[3]>>
DimNeg(a)    == <<-a[1], -a[2], -a[3]>>
Dimless      == <<0, 0, 0>>

(* ------------------------------- abstract layer ------------------------------- *)
(* SI value(s) of a concrete quantity *)
SIof(q) == IF q.k = "uv" THEN MMul(q.v, SysScale(q.sys, q.dim))
           ELSE [i \in 1..Len(q.vs) |-> MMul(q.vs[i], SysScale(q.sys, q.dim))]
(* a plain number next to quantity q in + - % and comparisons means "that many of q's units" *)
SIofNumNextTo(n, q) == MMul(n.v, SysScale(q.sys, q.dim))

(* Python float modulo for rationals (sign of the divisor): a - b*floor(a/b) *)
RFloor(a) == IF a[1] >= 0 THEN a[1] \div a[2] ELSE -((-a[1] + a[2] - 1) \div a[2])
RMod(a, b) == RSub(a, RMul(b, R(RFloor(RDiv(a, b)))))
ScalePart(x) == IF x.num = 0 THEN MOne ELSE Mono(1, 1, x.p10, x.p6, x.pNA)
RatPart(x)   == <<x.num, x.den>>
Modable(x, y) == y.num # 0 /\ (x.num = 0 \/ SameScale(x, y))
MMod(x, y) == LET r == RMod(RatPart(x), RatPart(y)) IN MCanon(Mono(r[1], r[2], y.p10, y.p6, y.pNA))
MLt(x, y)  == RLt(RatPart(x), RatPart(y))          \* only used when SameScale(x, y)
MEq(x, y)  == MCanon(x) = MCanon(y)

(* ------------------------------- concrete layer ------------------------------- *)
ConvTo(q, sys) ==
  IF q.k = "uv" THEN UV(MMul(q.v, Conv(q.sys, sys, q.dim)), sys, q.dim)
  ELSE UA([i \in 1..Len(q.vs) |-> MMul(q.vs[i], Conv(q.sys, sys, q.dim))], sys, q.dim)

Neg(x) == CASE x.k = "uv" -> UV(MNeg(x.v), x.sys, x.dim)
            [] x.k = "ua" -> UA([i \in 1..Len(x.vs) |-> MNeg(x.vs[i])], x.sys, x.dim)
            [] x.k = "num" -> Num(MNeg(x.v))
            [] OTHER -> Err
AbsQ(x) == CASE x.k = "uv" -> UV(MAbs(x.v), x.sys, x.dim)
             [] x.k = "ua" -> UA([i \in 1..Len(x.vs) |-> MAbs(x.vs[i])], x.sys, x.dim)
             [] OTHER -> Err
Inv(x) == CASE x.k = "uv" -> UV(MInv(x.v), x.sys, DimNeg(x.dim))
            [] x.k = "ua" -> UA([i \in 1..Len(x.vs) |-> MInv(x.vs[i])], x.sys, DimNeg(x.dim))
            [] x.k = "num" -> Num(MInv(x.v))
            [] OTHER -> Err

(* self._sum(v): self is the object whose method runs *)
Sum(self, v) ==
  CASE v.k = "uv" ->
         IF self.dim # v.dim THEN Err
         ELSE LET w == ConvTo(v, self.sys)
              IN  IF self.k = "uv" THEN UV(MAdd(self.v, w.v), self.sys, self.dim)
                  ELSE UA([i \in 1..Len(self.vs) |-> MAdd(self.vs[i], w.v)], self.sys, self.dim)
    [] v.k = "num" ->
         IF self.k = "uv" THEN UV(MAdd(self.v, v.v), self.sys, self.dim)
         ELSE UA([i \in 1..Len(self.vs) |-> MAdd(self.vs[i], v.v)], self.sys, self.dim)
    [] v.k = "ua" ->
         IF self.dim # v.dim THEN Err
         ELSE LET w == ConvTo(v, self.sys)
              IN  IF self.k = "uv" THEN UA([i \in 1..Len(w.vs) |-> MAdd(self.v, w.vs[i])], self.sys, self.dim)
                  ELSE IF Len(self.vs) # Len(w.vs) THEN Err
                  ELSE UA([i \in 1..Len(self.vs) |-> MAdd(self.vs[i], w.vs[i])], self.sys, self.dim)
    [] OTHER -> Err

Product(self, v) ==
  CASE v.k = "uv" ->
         LET w == ConvTo(v, self.sys)
         IN  IF self.k = "uv" THEN UV(MMul(self.v, w.v), self.sys, DimAdd(self.dim, w.dim))
             ELSE UA([i \in 1..Len(self.vs) |-> MMul(self.vs[i], w.v)], self.sys, DimAdd(self.dim, w.dim))
    [] v.k = "num" ->
         IF self.k = "uv" THEN UV(MMul(self.v, v.v), self.sys, self.dim)
         ELSE UA([i \in 1..Len(self.vs) |-> MMul(self.vs[i], v.v)], self.sys, self.dim)
    [] v.k = "ua" ->
         LET w == ConvTo(v, self.sys)
         IN  IF self.k = "uv" THEN UA([i \in 1..Len(w.vs) |-> MMul(self.v, w.vs[i])], self.sys, DimAdd(self.dim, w.dim))
             ELSE IF Len(self.vs) # Len(w.vs) THEN Err
             ELSE UA([i \in 1..Len(self.vs) |-> MMul(self.vs[i], w.vs[i])], self.sys, DimAdd(self.dim, w.dim))
    [] OTHER -> Err

(* self._modulo(m) = self % m ; self._rmodulo(v) = v % self *)
Modulo(self, m, reflected) ==
  LET op(a, b) == IF reflected THEN MMod(b, a) ELSE MMod(a, b)
  IN CASE m.k = "uv" ->
            IF self.dim # m.dim THEN Err
            ELSE LET w == ConvTo(m, self.sys)
                 IN  IF self.k = "uv" THEN UV(op(self.v, w.v), self.sys, self.dim)
                     ELSE UA([i \in 1..Len(self.vs) |-> op(self.vs[i], w.v)], self.sys, self.dim)
       [] m.k = "num" ->
            IF self.k = "uv" THEN UV(op(self.v, m.v), self.sys, self.dim)
            ELSE UA([i \in 1..Len(self.vs) |-> op(self.vs[i], m.v)], self.sys, self.dim)
       [] m.k = "ua" ->
            IF self.dim # m.dim THEN Err
            ELSE LET w == ConvTo(m, self.sys)
                 IN  IF self.k = "uv" THEN UA([i \in 1..Len(w.vs) |-> op(self.v, w.vs[i])], self.sys, self.dim)
                     ELSE IF Len(self.vs) # Len(w.vs) THEN Err
                     ELSE UA([i \in 1..Len(self.vs) |-> op(self.vs[i], w.vs[i])], self.sys, self.dim)
       [] OTHER -> Err

(* exponent e is a rational <<p, q>>; each resulting dimension exponent must be an integer *)
DimTimes(dim, e) == <<(dim[1] * e[1]) \div e[2], (dim[2] * e[1]) \div e[2], (dim[3] * e[1]) \div e[2]>>
DimIntegral(dim, e) == \A i \in 1..3 : (dim[i] * e[1]) % e[2] = 0
Power(self, ex) ==
  IF self.k # "uv" \/ ex.k # "num" THEN Err
  ELSE LET e == AsRat(ex.v)
       IN  IF ~DimIntegral(self.dim, e) THEN Err
           ELSE IF e[2] = 1 THEN UV(MPow(self.v, e[1]), self.sys, DimTimes(self.dim, e))
           ELSE Irr(self.v, e, self.sys, DimTimes(self.dim, e))

(* comparisons: UnitValue only *)
Compare(self, v, rel) ==      \* rel in "lt","le","gt","ge","eq","ne" ; meaning self rel v
  LET dec(a, b) == CASE rel = "lt" -> MLt(a, b) [] rel = "le" -> (MLt(a, b) \/ MEq(a, b))
                     [] rel = "gt" -> MLt(b, a) [] rel = "ge" -> (MLt(b, a) \/ MEq(a, b))
                     [] rel = "eq" -> MEq(a, b) [] rel = "ne" -> ~MEq(a, b)
  IN  IF self.k # "uv" THEN Err
      ELSE CASE v.k = "uv" ->
                  IF self.dim # v.dim THEN (IF rel = "eq" THEN Bool(FALSE) ELSE IF rel = "ne" THEN Bool(TRUE) ELSE Err)
                  ELSE Bool(dec(self.v, ConvTo(v, self.sys).v))
             [] v.k = "num" -> Bool(dec(self.v, v.v))
             [] OTHER -> Err
Flip(rel) == CASE rel = "lt" -> "gt" [] rel = "gt" -> "lt" [] rel = "le" -> "ge" [] rel = "ge" -> "le" [] OTHER -> rel

(* Python's dispatch: "acc op x" runs acc's method; "x op acc" runs x's method when x is a quantity,     *)
(* and acc's reflected method when x is a plain number                                                   *)
Apply(op, acc, x, accIsLeft) ==
  IF acc.k \notin {"uv", "ua"} THEN Err
  ELSE CASE op = "neg" -> Neg(acc)
    [] op = "abs" -> AbsQ(acc)
    [] op = "pos" -> acc
    [] op = "add" -> IF accIsLeft \/ x.k = "num" THEN Sum(acc, x) ELSE Sum(x, acc)
    [] op = "sub" -> IF accIsLeft THEN Sum(acc, Neg(x))
                     ELSE IF x.k = "num" THEN Neg(Sum(acc, Neg(x))) ELSE Sum(x, Neg(acc))
    [] op = "mul" -> IF accIsLeft \/ x.k = "num" THEN Product(acc, x) ELSE Product(x, acc)
    [] op = "div" -> IF accIsLeft THEN Product(acc, Inv(x))
                     ELSE IF x.k = "num" THEN Product(Inv(acc), x) ELSE Product(x, Inv(acc))
    [] op = "mod" -> IF accIsLeft THEN Modulo(acc, x, FALSE)
                     ELSE IF x.k = "num" THEN Modulo(acc, x, TRUE) ELSE Modulo(x, acc, FALSE)
    [] op = "pow" -> IF accIsLeft THEN Power(acc, x) ELSE Err
    [] op \in {"lt", "le", "gt", "ge", "eq", "ne"} ->
         IF accIsLeft THEN Compare(acc, x, op)
         ELSE IF x.k = "num" THEN Compare(acc, x, Flip(op))
         ELSE IF x.k = "uv" THEN Compare(x, acc, op)
         ELSE Err
    [] OTHER -> Err

(* ------------------------- abstract semantics of the same call -------------------------- *)
(* result as SI value(s) + dimension, or "err"; numbers are read next to the quantity operand *)
AbsVal(x, other) == IF x.k = "num" THEN SIofNumNextTo(x, other) ELSE SIof(x)
Lift2(f(_, _), a, b) ==        \* broadcast scalar / sequence
  IF a.k = "ua" /\ b.k = "ua" THEN [i \in 1..Len(a.vs) |-> f(SIof(a)[i], SIof(b)[i])]
  ELSE IF a.k = "ua" THEN [i \in 1..Len(a.vs) |-> f(SIof(a)[i], AbsVal(b, a))]
  ELSE IF b.k = "ua" THEN [i \in 1..Len(b.vs) |-> f(AbsVal(a, b), SIof(b)[i])]
  ELSE f(AbsVal(a, b), AbsVal(b, a))
LenMismatch(a, b) == a.k = "ua" /\ b.k = "ua" /\ Len(a.vs) # Len(b.vs)
DimOf(x, other) == IF x.k = "num" THEN other.dim ELSE x.dim     \* in + - % cmp a number borrows the units
AbstractAdditive(f(_, _), l, r) ==     \* l (+|-|%) r
  IF DimOf(l, r) # DimOf(r, l) \/ LenMismatch(l, r) THEN [tag |-> "err"]
  ELSE [tag |-> "val", arr |-> (l.k = "ua" \/ r.k = "ua"), si |-> Lift2(f, l, r), dim |-> DimOf(l, r)]
MulVal(x) == IF x.k = "num" THEN x.v ELSE SIof(x)           \* in * / a number is dimensionless
MulDim(x) == IF x.k = "num" THEN Dimless ELSE x.dim
Lift2M(f(_, _), a, b) ==
  IF a.k = "ua" /\ b.k = "ua" THEN [i \in 1..Len(a.vs) |-> f(SIof(a)[i], SIof(b)[i])]
  ELSE IF a.k = "ua" THEN [i \in 1..Len(a.vs) |-> f(SIof(a)[i], MulVal(b))]
  ELSE IF b.k = "ua" THEN [i \in 1..Len(b.vs) |-> f(MulVal(a), SIof(b)[i])]
  ELSE f(MulVal(a), MulVal(b))
AbstractMul(l, r) == IF LenMismatch(l, r) THEN [tag |-> "err"]
                     ELSE [tag |-> "val", arr |-> (l.k = "ua" \/ r.k = "ua"), si |-> Lift2M(MMul, l, r), dim |-> DimAdd(MulDim(l), MulDim(r))]
AbstractDiv(l, r) == IF LenMismatch(l, r) THEN [tag |-> "err"]
                     ELSE [tag |-> "val", arr |-> (l.k = "ua" \/ r.k = "ua"), si |-> Lift2M(MDiv, l, r), dim |-> DimAdd(MulDim(l), DimNeg(MulDim(r)))]

MSub(a, b) == MAdd(a, MNeg(b))
Unary(f(_), acc) == [tag |-> "val", arr |-> acc.k = "ua",
                     si |-> IF acc.k = "uv" THEN f(SIof(acc)) ELSE [i \in 1..Len(acc.vs) |-> f(SIof(acc)[i])], dim |-> acc.dim]
Ident(m) == m
Abstract(op, acc, x, accIsLeft) ==
  LET l == IF accIsLeft THEN acc ELSE x
      r == IF accIsLeft THEN x ELSE acc
  IN CASE op = "neg" -> Unary(MNeg, acc)
       [] op = "abs" -> Unary(MAbs, acc)
       [] op = "pos" -> Unary(Ident, acc)
       [] op = "add" -> AbstractAdditive(MAdd, l, r)
       [] op = "sub" -> AbstractAdditive(MSub, l, r)
       [] op = "mod" -> AbstractAdditive(MMod, l, r)
       [] op = "mul" -> AbstractMul(l, r)
       [] op = "div" -> AbstractDiv(l, r)
       [] OTHER -> [tag |-> "skip"]

(* the refinement: the concrete result, read in SI, is the abstract result; errors coincide *)
SIofResult(c) == IF c.k = "uv" \/ c.k = "ua" THEN [tag |-> "val", arr |-> c.k = "ua", si |-> SIof(c), dim |-> c.dim] ELSE [tag |-> "err"]
CanonSI(s) == IF s.tag # "val" THEN s
              ELSE [tag |-> "val", arr |-> s.arr, si |-> IF s.arr THEN [i \in DOMAIN s.si |-> MCanon(s.si[i])] ELSE MCanon(s.si), dim |-> s.dim]
Refines(op, acc, x, accIsLeft) ==
  LET a == Abstract(op, acc, x, accIsLeft) IN
  a.tag = "skip" \/ CanonSI(SIofResult(Apply(op, acc, x, accIsLeft))) = CanonSI(a)
=============================================================================
