SPECIFICATION MCSpec
CONSTANTS
  Objects = {"e1"}
  Sharing = "perObject"
  Deltas = {1, 2, 3}
  MaxT = 4
  MaxLen = 2
  DTs = {2, 3}
  MaxN = 4
  MaxManual = 2
CONSTRAINT Bound
VIEW View
INVARIANT InvShape
INVARIANT InvStepTimes
INVARIANT InvRecIsStep
INVARIANT InvT0Record
INVARIANT InvPolicyMono
INVARIANT InvAllMono
INVARIANT InvOnePerStep
INVARIANT InvOnTSample
INVARIANT InvOnTSampleEnd
INVARIANT InvOnIteration
INVARIANT InvOnInterval
INVARIANT InvNoSampling
INVARIANT InvFixedEnd
INVARIANT InvGillEnd
INVARIANT InvPosRange
INVARIANT InvStatusCurrent
PROPERTY StickyComplete
PROPERTY IdleAfterDone
PROPERTY OnlyIterationsAdvance
PROPERTY ManualRule
