SPECIFICATION TSpec
CONSTANTS
  ExpChoices <- ExpQuick
  Emit = TRUE
INVARIANT MachineIsGrammar
INVARIANT InGrammar
INVARIANT SlashIsNegative
INVARIANT OrderIrrelevant
INVARIANT PrintParse
INVARIANT Emitted
