------------------------------ MODULE GridInd ------------------------------
(* For ALL grid sizes (Apalache, no bound on w, h, d): the engine's neighbour arithmetic            *)
(* (GetNeighborIndex: step, wrap periodic axes with (n + x) % n, test bounds, flatten) yields an     *)
(* index inside the mesh or "no neighbour". (The inverse pair flatten / unflatten is decided by TLC for *)
(* bounded sizes in MC_Geometry: Z3 does not settle the nonlinear div / mod obligation.)               *)
EXTENDS Integers

VARIABLES
  \* @type: Int;
  w,
  \* @type: Int;
  h,
  \* @type: Int;
  d,
  \* @type: Int;
  x,
  \* @type: Int;
  y,
  \* @type: Int;
  z,
  \* @type: Int;
  dir,
  \* @type: Bool;
  px,
  \* @type: Bool;
  py,
  \* @type: Bool;
  pz

Init ==
  /\ w \in Int /\ h \in Int /\ d \in Int /\ x \in Int /\ y \in Int /\ z \in Int /\ dir \in 0..5
  /\ px \in BOOLEAN /\ py \in BOOLEAN /\ pz \in BOOLEAN
  /\ w >= 1 /\ h >= 1 /\ d >= 1 /\ x >= 0 /\ x < w /\ y >= 0 /\ y < h /\ z >= 0 /\ z < d

Next == UNCHANGED <<w, h, d, x, y, z, dir, px, py, pz>>

Idx(a, b, c) == c * w * h + b * w + a
DX == IF dir = 0 THEN 1 ELSE IF dir = 1 THEN -1 ELSE 0
DY == IF dir = 2 THEN 1 ELSE IF dir = 3 THEN -1 ELSE 0
DZ == IF dir = 4 THEN 1 ELSE IF dir = 5 THEN -1 ELSE 0
X1 == IF px THEN (w + x + DX) % w ELSE x + DX
Y1 == IF py THEN (h + y + DY) % h ELSE y + DY
Z1 == IF pz THEN (d + z + DZ) % d ELSE z + DZ
InB(a, b, c) == a >= 0 /\ a < w /\ b >= 0 /\ b < h /\ c >= 0 /\ c < d
Nbr == IF InB(X1, Y1, Z1) THEN Idx(X1, Y1, Z1) ELSE -1

NbrSafe == Nbr = -1 \/ (Nbr >= 0 /\ Nbr < w * h * d)
CellSafe == Idx(x, y, z) >= 0 /\ Idx(x, y, z) < w * h * d
\* a periodic axis never reports "no neighbour"
PeriodicTotal == (px /\ py /\ pz) => Nbr >= 0
=============================================================================
