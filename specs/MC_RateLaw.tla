----------------------------- MODULE MC_RateLaw -----------------------------
(* The deterministic rate law, model-checked over harness-supplied cases (C01, C02, C03): *)
(* each case (configuration, rational state) is an initial state; one exact Euler step     *)
(* is its successor.  Invariants: the declarative law and the engine-shaped tables agree,  *)
(* flagged entries have zero derivative and the others ignore the flag; the step keeps     *)
(* every conservation law and every chemostated entry.                                      *)
EXTENDS RDStep, Json, IOUtils, TLC

In == JsonDeserialize(IOEnv.IN_FILE)
Rq(p) == <<p[1], p[2]>>
MkCfg(t) ==
  LET g == t.space
      nbr == IF g.type = "grid" THEN GridNbr(g.w, g.h, g.d, g.bc, g.hh)
             ELSE GraphNbr(t.nC, [e \in 1..Len(g.edges) |->
                    [i |-> g.edges[e].i, j |-> g.edges[e].j, sfc |-> Rq(g.edges[e].sfc), dst |-> Rq(g.edges[e].dst)]])
  IN  [nC |-> t.nC, nS |-> t.nS, nR |-> t.nR, sub |-> t.sub, sto |-> t.sto, env |-> t.env,
       k |-> [e \in 1..Len(t.k) |-> [r \in 1..t.nR |-> Rq(t.k[e][r])]],
       D |-> [s \in 1..t.nS |-> [e \in 1..Len(t.D[s]) |-> Rq(t.D[s][e])]],
       h |-> t.h, nbr |-> nbr, chs |-> t.chs]

VARIABLES ci, cf, x, n
lv == <<ci, cf, x, n>>

LInit == /\ ci \in 1..Len(In) /\ cf = MkCfg(In[ci]) /\ n = 0
         /\ x = [i \in 1..In[ci].nC |-> [s \in 1..In[ci].nS |-> Rq(In[ci].states[1][i][s])]]
LNext == n = 0 /\ n' = 1 /\ x' = EulerRes(cf, x, Rq(In[ci].dt)) /\ UNCHANGED <<ci, cf>>
LSpec == LInit /\ [][LNext]_lv

ShapesAgree == n = 0 => \A i \in CellsOf(cf), s \in SpeciesOf(cf) :
                  /\ FLaw(cf, x, i, s, TRUE) = FEngine(cf, x, i, s, TRUE)
                  /\ FLaw(cf, x, i, s, FALSE) = FEngine(cf, x, i, s, FALSE)
FlaggedZero == n = 0 => \A i \in CellsOf(cf), s \in SpeciesOf(cf) : cf.chs[i][s] => FLaw(cf, x, i, s, TRUE) = Zero
OthersIgnoreFlag == n = 0 => \A i \in CellsOf(cf), s \in SpeciesOf(cf) :
                      ~cf.chs[i][s] => FLaw(cf, x, i, s, TRUE) = FLaw(cf, x, i, s, FALSE)
EulerConserves == [][\A v \in ConsLaws(cf) : RTotal(cf, v, x') = RTotal(cf, v, x)]_lv
EulerHoldsChem == [][\A i \in CellsOf(cf), s \in SpeciesOf(cf) : cf.chs[i][s] => x'[i][s] = x[i][s]]_lv
=============================================================================
