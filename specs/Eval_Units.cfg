
