SPECIFICATION Spec
CONSTANTS
  NS = 2
  CellEnv <- MCCellEnv
  Vol <- MCVol
  NE = 2
  Vals <- MCVals
  QUnits <- MCQUnits
  DensTabs <- MCDensTabs
  ChsTabs <- MCChsTabs
  UniformVol = FALSE
  VolVals <- MCVolVals
  Depth = 3
  Emit = FALSE
VIEW view
INVARIANT TypeOK
INVARIANT RegenReflectsEdits
INVARIANT DefaultIsLookup
INVARIANT Emitted
PROPERTY Independent
PROPERTY EntryEdits
PROPERTY ResetIsZero
