------------------------------ MODULE Simulate ------------------------------
(* The driver simulate_script(script, engine) of simulate.py, as a sequential     *)
(* program over the LibRDEngine actions of Engine:                                 *)
(*                                                                                 *)
(*     engine.setup(script)                 start   -> loop                        *)
(*     do c = engine.run(1000); progress    loop    -> loop | fetch                *)
(*     while c                                                                     *)
(*     output = engine.get_output()         fetch   -> release                     *)
(*     engine.finalize()                    release -> released                    *)
(*     return output                        released -> idle                       *)
(*                                                                                 *)
(* One action per call of the code; run's slice length is whatever the wall clock  *)
(* gives (1..MaxJ iterations).  Properties: the driver terminates, what it returns  *)
(* is the record of a COMPLETED run that satisfies the sampling contract, the       *)
(* engine is released afterwards, and it makes no other call.                       *)
EXTENDS Engine

CONSTANTS DriverObj,      \* the engine object handed to simulate_script
          DConfigs,       \* configurations it may be called with
          MaxJ            \* bound on the iterations of one run() slice

VARIABLES pc,             \* where the driver is
          out,            \* what it will return: [recT, recN] of get_output
          ncalls          \* [call name -> number of calls made by this invocation]

svars == <<vars, pc, out, ncalls>>

NoOut == [recT |-> <<-1>>, recN |-> <<-1>>]
Zero  == [c \in {"setup", "run", "get_progress", "get_output", "finalize"} |-> 0]
Count(c) == ncalls' = [ncalls EXCEPT ![c] = @ + 1]

DInit == Init /\ pc = "idle" /\ out = NoOut /\ ncalls = Zero

DBegin    == /\ pc = "idle" /\ pc' = "start" /\ out' = NoOut /\ ncalls' = Zero
             /\ UNCHANGED core /\ obs' = [call |-> "simulate_begin", obj |-> DriverObj]
DSetup(c) == pc = "start" /\ Setup(DriverObj, c) /\ pc' = "loop" /\ Count("setup") /\ UNCHANGED out
DRunJ(J)  == /\ pc = "loop" /\ Run(DriverObj, J)
             /\ pc' = (IF obs'.ret THEN "loop" ELSE "fetch") /\ Count("run") /\ UNCHANGED out
DRun      == DRunJ(1..MaxJ)
DProgress == /\ pc \in {"loop", "fetch"} /\ ncalls["get_progress"] < ncalls["run"]   \* print_progress: once after each slice, the last one included
             /\ GetProgress(DriverObj) /\ Count("get_progress") /\ UNCHANGED <<pc, out>>
DFetch    == /\ pc = "fetch" /\ GetOutput(DriverObj)
             /\ out' = [recT |-> obs'.recT, recN |-> obs'.recN] /\ pc' = "release" /\ Count("get_output")
DRelease  == pc = "release" /\ Finalize(DriverObj) /\ pc' = "released" /\ Count("finalize") /\ UNCHANGED out
DReturn   == /\ pc = "released" /\ pc' = "idle" /\ UNCHANGED <<core, out, ncalls>>
             /\ obs' = [call |-> "simulate_end", obj |-> DriverObj]

DNext == DBegin \/ (\E c \in DConfigs : DSetup(c)) \/ DRun \/ DProgress \/ DFetch \/ DRelease \/ DReturn
DriverStep == (\E c \in DConfigs : DSetup(c)) \/ DRun \/ DFetch \/ DRelease
DSpec == DInit /\ [][DNext]_svars /\ WF_svars(DriverStep)

(* ---- what the caller of simulate_script relies on ---- *)
A == alg[Own(DriverObj)]
ReturnsCompletedRun ==
  pc = "released" =>
     /\ A.complete /\ ~A.live                       \* ran to completion, engine released
     /\ out.recT = A.recT /\ out.recN = A.recN       \* the output is the whole record of that run
     /\ Contract(A)                                  \* ... which obeys the sampling contract
     /\ ncalls["setup"] = 1 /\ ncalls["get_output"] = 1 /\ ncalls["finalize"] = 1 /\ ncalls["run"] >= 1
NeverTouchesReleased == pc \in {"loop", "fetch"} => A.live
LoopOnlyWhileUnfinished == pc = "fetch" => (A.complete /\ ~unf[DriverObj])
Terminates == (pc = "start") ~> (pc = "released")
Bounded == TLCGet("level") <= 40
=============================================================================
