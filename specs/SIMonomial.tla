----------------------------- MODULE SIMonomial -----------------------------
(* Exact numbers of the form (num/den) * 10^p10 * 6^p6 * NA^pNA  ("monomials"):   *)
(* every unit scale of strengths is one (min = 6*10 s, h = 6^2*10^2 s, mol = NA      *)
(* molecules), so conversion factors and expected results stay exact and never        *)
(* overflow TLC's 32-bit integers.  The table below is transcribed from the SI       *)
(* definitions, not from units.py.                                                    *)
EXTENDS Integers, Sequences, Rat, TLC

Mono(n, d, a, b, c) == LET q == Norm(n, d) IN [num |-> q[1], den |-> q[2], p10 |-> a, p6 |-> b, pNA |-> c]
MOne  == Mono(1, 1, 0, 0, 0)
MZero == Mono(0, 1, 0, 0, 0)
MRat(q) == Mono(q[1], q[2], 0, 0, 0)
MInt(n) == Mono(n, 1, 0, 0, 0)
MCanon(m) == IF m.num = 0 THEN MZero ELSE m          \* zero has no scale
MMul(x, y) == MCanon(Mono(x.num * y.num, x.den * y.den, x.p10 + y.p10, x.p6 + y.p6, x.pNA + y.pNA))
MInv(x)    == Mono(x.den, x.num, -x.p10, -x.p6, -x.pNA)
MDiv(x, y) == MMul(x, MInv(y))
MNeg(x)    == [x EXCEPT !.num = -x.num]
MAbs(x)    == [x EXCEPT !.num = Abs(x.num)]
RECURSIVE IPow(_, _)
IPow(b, e) == IF e = 0 THEN 1 ELSE b * IPow(b, e - 1)
MPow(x, e) == IF e >= 0 THEN MCanon(Mono(IPow(x.num, e), IPow(x.den, e), x.p10 * e, x.p6 * e, x.pNA * e))
              ELSE MCanon(Mono(IPow(x.den, -e), IPow(x.num, -e), x.p10 * e, x.p6 * e, x.pNA * e))
SameScale(x, y) == x.num = 0 \/ y.num = 0 \/ (x.p10 = y.p10 /\ x.p6 = y.p6 /\ x.pNA = y.pNA)
Rational(x)     == x.num = 0 \/ (x.p6 = 0 /\ x.pNA = 0 /\ x.p10 \in -6..6)
AsRat(x)   == IF x.num = 0 THEN Zero
              ELSE IF x.p10 >= 0 THEN Norm(x.num * IPow(10, x.p10), x.den) ELSE Norm(x.num, x.den * IPow(10, -x.p10))
(* addition: defined when both are plain rationals or share their scale *)
MAdd(x, y) == IF x.num = 0 THEN y ELSE IF y.num = 0 THEN x
              ELSE IF x.p10 = y.p10 /\ x.p6 = y.p6 /\ x.pNA = y.pNA
                   THEN LET s == RAdd(<<x.num, x.den>>, <<y.num, y.den>>) IN MCanon(Mono(s[1], s[2], x.p10, x.p6, x.pNA))
                   ELSE IF x.p6 = 0 /\ x.pNA = 0 /\ y.p6 = 0 /\ y.pNA = 0 /\ x.p10 \in -6..6 /\ y.p10 \in -6..6
                   THEN MRat(RAdd(AsRat(x), AsRat(y)))
                   ELSE Assert(FALSE, <<"MAdd of monomials with different scales", x, y>>)
Addable(x, y) == SameScale(x, y) \/ (Rational(x) /\ Rational(y))

(* ------------------------- the SI table ------------------------------------ *)
SpaceUnits == <<"km", "m", "dm", "cm", "mm", "dmm", "cmm", "µm", "nm", "pm", "fm">>
TimeUnits  == <<"h", "min", "s", "ds", "cs", "ms", "µs", "ns", "ps", "fs">>
QtyUnits   == <<"kmol", "mol", "dmol", "cmol", "mmol", "µmol", "nmol", "pmol", "fmol", "molecule">>

Prefix10(p) == CASE p = "k" -> 3 [] p = "" -> 0 [] p = "d" -> -1 [] p = "c" -> -2 [] p = "m" -> -3
                 [] p = "µ" -> -6 [] p = "n" -> -9 [] p = "p" -> -12 [] p = "f" -> -15

SpaceScale(u) == CASE u = "km" -> Mono(1,1,3,0,0)   [] u = "m" -> Mono(1,1,0,0,0)    [] u = "dm" -> Mono(1,1,-1,0,0)
                   [] u = "cm" -> Mono(1,1,-2,0,0)  [] u = "mm" -> Mono(1,1,-3,0,0)   [] u = "dmm" -> Mono(1,1,-4,0,0)
                   [] u = "cmm" -> Mono(1,1,-5,0,0) [] u = "µm" -> Mono(1,1,-6,0,0)   [] u = "nm" -> Mono(1,1,-9,0,0)
                   [] u = "pm" -> Mono(1,1,-12,0,0) [] u = "fm" -> Mono(1,1,-15,0,0)
TimeScale(u)  == CASE u = "h" -> Mono(1,1,2,2,0)    [] u = "min" -> Mono(1,1,1,1,0)   [] u = "s" -> Mono(1,1,0,0,0)
                   [] u = "ds" -> Mono(1,1,-1,0,0)  [] u = "cs" -> Mono(1,1,-2,0,0)   [] u = "ms" -> Mono(1,1,-3,0,0)
                   [] u = "µs" -> Mono(1,1,-6,0,0)  [] u = "ns" -> Mono(1,1,-9,0,0)   [] u = "ps" -> Mono(1,1,-12,0,0)
                   [] u = "fs" -> Mono(1,1,-15,0,0)
QtyScale(u)   == CASE u = "molecule" -> Mono(1,1,0,0,0) [] u = "kmol" -> Mono(1,1,3,0,1) [] u = "mol" -> Mono(1,1,0,0,1)
                   [] u = "dmol" -> Mono(1,1,-1,0,1) [] u = "cmol" -> Mono(1,1,-2,0,1)  [] u = "mmol" -> Mono(1,1,-3,0,1)
                   [] u = "µmol" -> Mono(1,1,-6,0,1) [] u = "nmol" -> Mono(1,1,-9,0,1)  [] u = "pmol" -> Mono(1,1,-12,0,1)
                   [] u = "fmol" -> Mono(1,1,-15,0,1)

(* a units system is <<space, time, quantity>>; a dimension is <<ds, dt, dq>> *)
SysScale(sys, dim) == MMul(MMul(MPow(SpaceScale(sys[1]), dim[1]), MPow(TimeScale(sys[2]), dim[2])), MPow(QtyScale(sys[3]), dim[3]))
Conv(src, dst, dim) == MDiv(SysScale(src, dim), SysScale(dst, dim))     \* multiply a value in src by this to get it in dst

(* litre family = cubic (deci)metre family; molar family = mol per litre *)
VolumeUnits  == <<"kL", "L", "mL", "µL", "nL", "pL", "fL">>
DensityUnits == <<"kM", "M", "dM", "cM", "mM", "µM", "nM", "pM", "fM">>
LitreScale(u) == CASE u = "kL" -> Mono(1,1,0,0,0)  [] u = "L" -> Mono(1,1,-3,0,0)  [] u = "mL" -> Mono(1,1,-6,0,0)
                   [] u = "µL" -> Mono(1,1,-9,0,0) [] u = "nL" -> Mono(1,1,-12,0,0) [] u = "pL" -> Mono(1,1,-15,0,0)
                   [] u = "fL" -> Mono(1,1,-18,0,0)         \* in cubic metres
MolarScale(u) == CASE u = "kM" -> Mono(1,1,6,0,1)  [] u = "M" -> Mono(1,1,3,0,1)   [] u = "dM" -> Mono(1,1,2,0,1)
                   [] u = "cM" -> Mono(1,1,1,0,1)  [] u = "mM" -> Mono(1,1,0,0,1)   [] u = "µM" -> Mono(1,1,-3,0,1)
                   [] u = "nM" -> Mono(1,1,-6,0,1) [] u = "pM" -> Mono(1,1,-9,0,1)  [] u = "fM" -> Mono(1,1,-12,0,1)
                                                           \* molecules per cubic metre
=============================================================================
