------------------------------ MODULE SystemEdit ------------------------------
(* The editable content of one RDSystem object as a state machine (C13, histories):            *)
(* the species' density / chemostat tables (edited through the species), the state and the       *)
(* chemostat map (edited entry by entry, replaced as a whole, emptied, regenerated), copies      *)
(* and dictionary round trips of the object.  One action per public call of rdsystem.py:        *)
(*   SetState      set_state(species, position, value)                                         *)
(*   SetChem       set_chemostat(species, position, flag)                                      *)
(*   ResetState    reset_state()            ResetChem   reset_chemostats()                     *)
(*   RegenState    set_default_state()      RegenChem   set_default_chemostats()               *)
(*   EditDens      species.density = ...    EditChs     species.chstt = ...                    *)
(*   AssignState   system.state = array     AssignChem  system.chemostats = array              *)
(*   Copy          system = system.copy()   (the original must stay as it was)                 *)
(*   RoundTrip     system = rdsystem_from_dict(rdsystem_to_dict(system))                       *)
(* Amounts are SI monomials (molecules); densities and volumes are in the default units, so a     *)
(* density d and a volume v give MInt(d * v) molecules.  sysq is the quantity unit of the          *)
(* system object: bare numbers handed to SetState / AssignState are in that unit.                 *)
EXTENDS Layout, Json, TLC

CONSTANTS NS,        \* number of species
          CellEnv,   \* environment index (0-based) of every cell
          Vol,       \* volume of every cell (integers, default units)
          NE,        \* number of environments
          Vals,      \* density values / amounts used by edits
          QUnits,    \* quantity units of explicit values and of the system object
          DensTabs, ChsTabs,   \* initial per-species tables
          UniformVol, VolVals,  \* a grid (one volume for all cells) or a graph; the volumes an edit may set
          Depth, Emit

VARIABLES sysq, init, dens, chs, cellEnv, vol, state, chem, freshS, freshC, hist, pick
vars == <<sysq, init, dens, chs, cellEnv, vol, state, chem, freshS, freshC, hist, pick>>
view == <<sysq, dens, chs, cellEnv, vol, state, chem, freshS, freshC, Len(hist)>>

N      == Len(CellEnv)          \* CellEnv, Vol: the space as first built
Size   == NS * N
VolM   == [c \in 1..N |-> MInt(vol[c])]
None   == [absent |-> TRUE]
Slots  == 1..(NE + 1)                       \* 1 = 'default', e + 2 = environment e
DefS(d) == DefaultState(NS, cellEnv, VolM, d)
DefC(t) == DefaultChem(NS, cellEnv, t)
Amount(v, u) == MMul(MInt(v), QtyScale(u))  \* v of unit u, in molecules
Step(op, args) == hist' = Append(hist, [op |-> op, args |-> args, dens |-> dens', chs |-> chs', state |-> state', chem |-> chem'])

Init ==
  /\ sysq \in QUnits
  /\ dens \in [1..NS -> DensTabs]
  /\ chs \in [1..NS -> ChsTabs]
  /\ cellEnv = CellEnv /\ vol = Vol
  /\ state = DefS(dens) /\ chem = DefC(chs)
  /\ init = [dens |-> dens, chs |-> chs, state |-> state, chem |-> chem]
  /\ freshS = TRUE /\ freshC = TRUE
  /\ hist = <<>>
  /\ pick = "none"

SetState(s, c, v, u) ==
  /\ state' = SetAt(state, s, c, N, Amount(v, IF u = "bare" THEN sysq ELSE u))
  /\ freshS' = FALSE
  /\ UNCHANGED <<sysq, init, cellEnv, vol, dens, chs, chem, freshC>>
  /\ Step("set_state", [s |-> s, c |-> c, v |-> v, u |-> u])
SetChem(s, c, b) ==
  /\ chem' = SetAt(chem, s, c, N, b)
  /\ freshC' = FALSE
  /\ UNCHANGED <<sysq, init, cellEnv, vol, dens, chs, state, freshS>>
  /\ Step("set_chem", [s |-> s, c |-> c, b |-> b])
ResetState ==
  /\ state' = [k \in 1..Size |-> MZero]
  /\ freshS' = FALSE
  /\ UNCHANGED <<sysq, init, cellEnv, vol, dens, chs, chem, freshC>>
  /\ Step("reset_state", [x |-> 0])
ResetChem ==
  /\ chem' = [k \in 1..Size |-> FALSE]
  /\ freshC' = FALSE
  /\ UNCHANGED <<sysq, init, cellEnv, vol, dens, chs, state, freshS>>
  /\ Step("reset_chem", [x |-> 0])
RegenState ==
  /\ state' = DefS(dens)
  /\ freshS' = TRUE
  /\ UNCHANGED <<sysq, init, cellEnv, vol, dens, chs, chem, freshC>>
  /\ Step("regen_state", [x |-> 0])
RegenChem ==
  /\ chem' = DefC(chs)
  /\ freshC' = TRUE
  /\ UNCHANGED <<sysq, init, cellEnv, vol, dens, chs, state, freshS>>
  /\ Step("regen_chem", [x |-> 0])
(* editing a species changes nothing in the system until its defaults are regenerated *)
EditDens(s, slot, v) ==          \* slot 0: a scalar density (every environment), else one table entry
  /\ dens' = [dens EXCEPT ![s] = IF slot = 0 THEN [k \in Slots |-> [v |-> MInt(v)]] ELSE [@ EXCEPT ![slot] = [v |-> MInt(v)]]]
  /\ dens'[s] # dens[s]
  /\ freshS' = FALSE
  /\ UNCHANGED <<sysq, init, cellEnv, vol, chs, state, chem, freshC>>
  /\ Step("edit_dens", [s |-> s, slot |-> slot, v |-> v])
DropDens(s, slot) ==             \* an entry removed from the density dictionary
  /\ slot \in Slots /\ ~Absent(dens[s][slot])
  /\ dens' = [dens EXCEPT ![s][slot] = None]
  /\ freshS' = FALSE
  /\ UNCHANGED <<sysq, init, cellEnv, vol, chs, state, chem, freshC>>
  /\ Step("edit_dens", [s |-> s, slot |-> slot, v |-> -1])
EditChs(s, slot, b) ==
  /\ chs' = [chs EXCEPT ![s] = IF slot = 0 THEN [k \in Slots |-> [v |-> b]] ELSE [@ EXCEPT ![slot] = [v |-> b]]]
  /\ chs'[s] # chs[s]
  /\ freshC' = FALSE
  /\ UNCHANGED <<sysq, init, cellEnv, vol, dens, state, chem, freshS>>
  /\ Step("edit_chs", [s |-> s, slot |-> slot, b |-> b])
(* editing the space (a node's environment or volume, a grid's environment map or cell volume) changes nothing in the   *)
(* system either until its defaults are regenerated                                                                    *)
EditEnv(c, e) ==
  /\ cellEnv[c + 1] # e
  /\ cellEnv' = [cellEnv EXCEPT ![c + 1] = e]
  /\ freshS' = FALSE /\ freshC' = FALSE
  /\ UNCHANGED <<sysq, init, vol, dens, chs, state, chem>>
  /\ Step("edit_env", [c |-> c, e |-> e])
EditVol(c, v) ==                 \* a grid has one volume for all its cells
  /\ vol[c + 1] # v
  /\ vol' = IF UniformVol THEN [k \in 1..N |-> v] ELSE [vol EXCEPT ![c + 1] = v]
  /\ freshS' = FALSE
  /\ UNCHANGED <<sysq, init, cellEnv, dens, chs, state, chem, freshC>>
  /\ Step("edit_vol", [c |-> c, v |-> v])
AssignState(k, u) ==             \* a whole array: entry i holds (i * k) % 4 of unit u
  /\ state' = [i \in 1..Size |-> Amount((i * k) % 4, IF u = "bare" THEN sysq ELSE u)]
  /\ freshS' = FALSE
  /\ UNCHANGED <<sysq, init, cellEnv, vol, dens, chs, chem, freshC>>
  /\ Step("assign_state", [k |-> k, u |-> u])
AssignChem(k) ==
  /\ chem' = [i \in 1..Size |-> (i + k) % 2 = 1]
  /\ freshC' = FALSE
  /\ UNCHANGED <<sysq, init, cellEnv, vol, dens, chs, state, freshS>>
  /\ Step("assign_chem", [k |-> k])
(* the environment: the caller goes on using the arrays it handed to AssignState / AssignChem earlier (overwrites them in place). *)
(* The system holds its own arrays, so this is a stuttering step for the system - named so that TLC places it anywhere in a       *)
(* history and the replay performs it on the real objects                                                                          *)
CallerEdits ==
  /\ UNCHANGED <<sysq, init, cellEnv, vol, dens, chs, state, chem, freshS, freshC>>
  /\ Step("caller_edits", [x |-> 0])
Copy ==
  /\ UNCHANGED <<sysq, init, cellEnv, vol, dens, chs, state, chem, freshS, freshC>>
  /\ Step("copy", [x |-> 0])
RoundTrip ==
  /\ UNCHANGED <<sysq, init, cellEnv, vol, dens, chs, state, chem, freshS, freshC>>
  /\ Step("roundtrip", [x |-> 0])

DoSetState    == \E s \in 0..(NS - 1), c \in 0..(N - 1), v \in Vals \cup {0}, u \in QUnits \cup {"bare"} : SetState(s, c, v, u)
DoSetChem     == \E s \in 0..(NS - 1), c \in 0..(N - 1), b \in BOOLEAN : SetChem(s, c, b)
DoEditDens    == \/ \E s \in 1..NS, slot \in {0} \cup Slots, v \in Vals : EditDens(s, slot, v)
                 \/ \E s \in 1..NS, slot \in Slots : DropDens(s, slot)
DoEditChs     == \E s \in 1..NS, slot \in {0} \cup Slots, b \in BOOLEAN : EditChs(s, slot, b)
DoEditEnv     == \E c \in 0..(N - 1), e \in 0..(NE - 1) : EditEnv(c, e)
DoEditVol     == \E c \in 0..(N - 1), v \in VolVals : EditVol(c, v)
DoAssignState == \E k \in 1..3, u \in QUnits \cup {"bare"} : AssignState(k, u)
DoAssignChem  == \E k \in 0..1 : AssignChem(k)
Kinds == {"set_state", "set_chem", "reset_state", "reset_chem", "regen_state", "regen_chem", "edit_dens", "edit_chs",
          "assign_state", "assign_chem", "copy", "roundtrip", "edit_env", "edit_vol", "caller_edits"}
OfKind(k) == CASE k = "set_state" -> DoSetState [] k = "set_chem" -> DoSetChem [] k = "reset_state" -> ResetState
               [] k = "reset_chem" -> ResetChem [] k = "regen_state" -> RegenState [] k = "regen_chem" -> RegenChem
               [] k = "edit_dens" -> DoEditDens [] k = "edit_chs" -> DoEditChs [] k = "assign_state" -> DoAssignState
               [] k = "assign_chem" -> DoAssignChem [] k = "copy" -> Copy [] k = "roundtrip" -> RoundTrip
               [] k = "edit_env" -> DoEditEnv [] k = "edit_vol" -> DoEditVol [] k = "caller_edits" -> CallerEdits

Next ==
  /\ Len(hist) < Depth
  /\ pick' = pick
  /\ \E k \in Kinds : OfKind(k)
(* the generator's next-state relation: the kind of call is drawn first, then its arguments, so that TLC's simulation mode     *)
(* (uniform over successor states) draws every kind of call equally often; the behaviours are those of Next with stuttering     *)
GenNext ==
  \/ /\ pick = "none" /\ Len(hist) < Depth
     /\ pick' \in Kinds
     /\ UNCHANGED <<sysq, init, cellEnv, vol, dens, chs, state, chem, freshS, freshC, hist>>
  \/ /\ pick # "none" /\ pick' = "none"
     /\ OfKind(pick)
Spec == Init /\ [][Next]_vars
GenSpec == Init /\ [][GenNext]_vars

(* ---- properties ---- *)
TypeOK == /\ Len(state) = Size /\ Len(chem) = Size
          /\ \A k \in 1..Size : chem[k] \in BOOLEAN
(* right after a regeneration - and until the next edit of the array or of a species - the array is the default of the   *)
(* *current* species tables: regeneration reflects every earlier edit                                                     *)
RegenReflectsEdits == /\ freshS => state = DefS(dens)
                      /\ freshC => chem = DefC(chs)
(* a default entry is the density looked up for the cell's environment times the cell's volume *)
DefaultIsLookup == freshS => \A s \in 0..(NS - 1), c \in 0..(N - 1) :
     state[StateIdx(s, c, N) + 1] = MMul(InEnv(dens[s + 1], cellEnv[c + 1], MZero), VolM[c + 1])
(* the two arrays are edited independently, and species edits touch neither *)
Independent == [][/\ (state' # state => chem' = chem)
                  /\ (chem' # chem => state' = state)
                  /\ ((dens' # dens \/ chs' # chs \/ cellEnv' # cellEnv \/ vol' # vol) => (state' = state /\ chem' = chem))]_vars
(* an entry edit touches the addressed entry only *)
EntryEdits == [][\A s \in 0..(NS - 1), c \in 0..(N - 1) :
                   (hist' # hist /\ hist'[Len(hist')].op \in {"set_state", "set_chem"}
                      /\ hist'[Len(hist')].args.s = s /\ hist'[Len(hist')].args.c = c)
                   => (OnlyAddressed(state, state', s, c, N) /\ OnlyAddressed(chem, chem', s, c, N))]_vars
(* emptied arrays stay arrays of the right size on which every later call works *)
ResetIsZero == [][(hist' # hist /\ hist'[Len(hist')].op = "reset_state") => \A k \in 1..Size : state'[k] = MZero]_vars

Done == Len(hist) = Depth /\ pick = "none"
Emitted == (Emit /\ Done) => PrintT(<<"PROGRAM", ToJson([sysq |-> sysq, dens |-> init.dens, chs |-> init.chs, state |-> init.state, chem |-> init.chem, steps |-> hist])>>)
=============================================================================
