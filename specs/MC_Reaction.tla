----------------------------- MODULE MC_Reaction -----------------------------
(* C19 on the model: all equations with up to MaxTerms terms on the first side and up  *)
(* to MaxTerms2 on the other (labels A, B, C and the numeric-looking "2"; coefficients *)
(* absent, 0, 1, 2, 3, 9): parsing the rendered text (tight and loose spacing) gives    *)
(* the equation back, printing and re-parsing preserves the stoichiometry, orders are    *)
(* the coefficient sums, and the net change is products minus reactants.                 *)
EXTENDS Reaction, Json

CONSTANTS MaxTerms, MaxTerms2, Emit
Labels == {"A", "B", "C", "2"}
CoefChoices == {-1, 0, 1, 2, 3, 9}
Terms == {[c |-> c, l |-> l] : c \in CoefChoices, l \in Labels}

VARIABLES sub, prod, phase
rv == <<sub, prod, phase>>
RInit == sub = <<>> /\ prod = <<>> /\ phase = "sub"
RNext == \/ phase = "sub" /\ Len(sub) < MaxTerms /\ \E t \in Terms : sub' = Append(sub, t) /\ UNCHANGED <<prod, phase>>
         \/ phase = "sub" /\ phase' = "prod" /\ UNCHANGED <<sub, prod>>
         \/ phase = "prod" /\ Len(prod) < MaxTerms2 /\ \E t \in Terms : prod' = Append(prod, t) /\ UNCHANGED <<sub, phase>>
RSpec == RInit /\ [][RNext]_rv

ParseRendered(loose) == LET p == Parse(Render(sub, prod, loose)) IN p.ok /\ p.sub = sub /\ p.prod = prod
RoundTripTight == ParseRendered(FALSE)
RoundTripLoose == ParseRendered(TRUE)
PrintParse == LET p == Parse(PrintEq(sub, prod)) IN p.ok /\ SameSide(p.sub, sub) /\ SameSide(p.prod, prod)
PrintStable == LET p == Parse(PrintEq(sub, prod)) IN PrintEq(p.sub, p.prod) = PrintEq(sub, prod)
OrderIsSum == Order(sub) = (LET S == LabelsOf(sub) IN IF S = {} THEN 0 ELSE
                 LET RECURSIVE f(_) f(T) == IF T = {} THEN 0 ELSE LET l == CHOOSE l \in T : TRUE IN SumCoef(sub, l) + f(T \ {l}) IN f(S))
NetIsDiff == \A l \in Labels : Net(sub, prod, l) = (IF l \in LabelsOf(prod) THEN Stoich(prod)[l] ELSE 0) - (IF l \in LabelsOf(sub) THEN Stoich(sub)[l] ELSE 0)
ReverseSwaps == \A l \in Labels : Net(prod, sub, l) = -Net(sub, prod, l)

Emitted == (Emit /\ phase = "prod") =>
   PrintT(<<"PROGRAM", ToJson([sub |-> sub, prod |-> prod, tight |-> Render(sub, prod, FALSE), loose |-> Render(sub, prod, TRUE),
                              printed |-> PrintEq(sub, prod), order |-> Order(sub), rorder |-> Order(prod),
                              kdim |-> KDim(Order(sub)), krdim |-> KDim(Order(prod)),
                              net |-> [l \in Labels |-> Net(sub, prod, l)],
                              ssto |-> [l \in Labels |-> SumCoef(sub, l)], psto |-> [l \in Labels |-> SumCoef(prod, l)]])>>)
=============================================================================
