------------------------------ MODULE Eval_Text ------------------------------
(* TLC as the oracle for unit text: for every text supplied by the harness (a sequence  *)
(* of one-character strings) the result of the character machine and membership in the    *)
(* documented grammar; plus the printed form of given units.                               *)
EXTENDS UnitText, Json, IOUtils
In  == JsonDeserialize(IOEnv.IN_FILE)
Out == IOEnv.OUT_FILE
Res(t) == LET m == Machine(t) IN [ok |-> m.ok, sp |-> m.sp, ti |-> m.ti, qu |-> m.qu, dim |-> m.dim, rec |-> Recognise(t)]
Printed(u) == PrintUnits(<<u.sys[1], u.sys[2], u.sys[3]>>, <<u.dim[1], u.dim[2], u.dim[3]>>)
Result == [texts |-> [i \in 1..Len(In.texts) |-> Res(In.texts[i])],
           prints |-> [i \in 1..Len(In.units) |-> Printed(In.units[i])]]
ASSUME JsonSerialize(Out, Result)
ASSUME PrintT(<<"EVAL-DONE", Len(In.texts), Len(In.units)>>)
=============================================================================
