-------------------------- MODULE MC_EngineSampling --------------------------
(* Exhaustive check of the sampling contract (C09) on the mechanism of Engine:  *)
(* every configuration of a small family x every interleaving of Iterate and    *)
(* manual Sample calls.                                                         *)
EXTENDS Engine

CONSTANTS MaxT,      \* requested times and t_max range over 0..MaxT
          MaxLen,    \* length of the sample-time list: 1..MaxLen
          DTs,       \* time steps of the fixed-step kinds
          MaxN,      \* bound on the number of steps explored
          MaxManual  \* bound on manual sample() calls

TsFamily == UNION {{s \in [1..len -> 0..MaxT] : \A i \in 1..(len - 1) : s[i] <= s[i + 1]} : len \in 1..MaxLen}

TMaxChoices(ts) == {-1, ts[Len(ts)]} \cup (0..MaxT)     \* no limit | default (last requested) | explicit

MCConfigs ==
  {[kind |-> k, dt |-> d, tmax |-> tm, policy |-> p, interval |-> iv, ts |-> ts, qs |-> <<>>,
    death |-> IF k = "gill" THEN -1 ELSE -2] :
     k \in {"fixed", "gill"}, d \in DTs, tm \in -1..MaxT, p \in 0..3, iv \in 1..3, ts \in TsFamily}

(* drop configurations that differ only in a field their policy / kind never reads *)
Relevant(c) ==
  /\ c.kind = "gill" => c.dt = Min(DTs)
  /\ c.policy # 2 => c.interval = 1
  /\ c.policy # 0 => (Len(c.ts) = 1)     \* ts still feeds the default t_max through tm

Family == {c \in MCConfigs : Relevant(c)}

MCInit ==
  /\ \E c \in Family : alg = [s \in Slot |-> NativeInit(c)]
  /\ unf = [e \in Objects |-> TRUE]
  /\ has = [e \in Objects |-> TRUE]
  /\ undef = FALSE
  /\ obs = [call |-> "init"]

Manuals(a) == Cardinality({i \in RecIdx(a) : a.recBy[i] = "manual"})

ManualSample(e) == Manuals(alg[Own(e)]) < MaxManual /\ SampleCall(e)

MCNext ==
  \E e \in Objects :
     \/ Iterate(e)
     \/ ManualSample(e)

MCSpec == MCInit /\ [][MCNext]_vars

Bound == \A s \in Slot : alg[s].n <= MaxN /\ TLCGet("level") <= 2 * MaxN + MaxManual + 2

View == core

(* non-vacuity witnesses: each must be *violated* (reachable) - checked by the harness *)
WitnessTwoTausOneStep == ~ \E a \in LiveAlgs : a.cfg.policy = 0 /\ a.pos >= 2 /\ Len(a.recT) = 1 /\ a.n = 1
=============================================================================
