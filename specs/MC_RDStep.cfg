SPECIFICATION MSpec
CONSTANTS
  MaxDepth = 5
  LeapDepth = 2
CONSTRAINT MBound
INVARIANT MNonNeg
INVARIANT MConserved
INVARIANT MChemostat
PROPERTY MStepIsGStep
