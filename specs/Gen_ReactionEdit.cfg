SPECIFICATION GenSpec
CONSTANTS
  Eqs <- MCEqs
  Systems <- MCSystems
  Vals <- MCVals
  Depth = 6
  Emit = TRUE
INVARIANT DimensionsFollowOrders
INVARIANT Emitted
PROPERTY UnitsChangeKeepsMeaning
PROPERTY HalvesCarryTheConstants
