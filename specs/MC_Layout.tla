------------------------------ MODULE MC_Layout ------------------------------
(* C17 / C13 on the model:                                                            *)
(*  - all trajectory shapes (nsamples, nspecies, ncells) up to the bounds: the flat        *)
(*    formula equals the reshape semantics, and distinct triples have distinct offsets      *)
(*  - all non-decreasing time lists over 0..MaxT (even numbers = ticks, so odd queries are   *)
(*    half ticks) x all queries: the linear scans of the code compute the declarative        *)
(*    lookup                                                                                 *)
(*  - the editor touches only the addressed entry                                            *)
EXTENDS Layout, Json, TLC

CONSTANTS MaxNs, MaxS, MaxN, MaxLen, MaxT, Emit
VARIABLES kind, a, b, c, ts, q
lv == <<kind, a, b, c, ts, q>>

TimeLists == UNION {{s \in [1..len -> {2 * k : k \in 0..MaxT}] : \A i \in 1..(len - 1) : s[i] <= s[i + 1]} : len \in 0..MaxLen}
LInit == \/ kind = "shape" /\ a \in 1..MaxNs /\ b \in 1..MaxS /\ c \in 1..MaxN /\ ts = <<>> /\ q = 0
         \/ kind = "lookup" /\ a = 0 /\ b = 0 /\ c = 0 /\ ts \in TimeLists /\ q \in -1..(2 * MaxT + 1)
LNext == FALSE /\ UNCHANGED lv
LSpec == LInit /\ [][LNext]_lv

ShapeOK == kind = "shape" =>
   /\ \A n \in 0..(a - 1), s \in 0..(b - 1), i \in 0..(c - 1) :
         /\ TrajIdx(n, s, i, b, c) = Reshape3(n, s, i, b, c)
         /\ TrajIdx(n, s, i, b, c) = Reshape2(n, StateIdx(s, i, c), b, c)
         /\ TrajIdx(n, s, i, b, c) \in 0..(a * b * c - 1)
   /\ Cardinality({TrajIdx(n, s, i, b, c) : n \in 0..(a - 1), s \in 0..(b - 1), i \in 0..(c - 1)}) = a * b * c
Strict == \A i \in 1..(Len(ts) - 1) : ts[i] < ts[i + 1]
LookupInf == kind = "lookup" => CodeInfEq(ts, q) = InfEq(ts, q)
LookupSup == kind = "lookup" => CodeSupEq(ts, q) = SupEq(ts, q)
LookupClosest == kind = "lookup" => ClosestOK(ts, q, CodeClosest(ts, q))
EditOK == kind = "shape" =>
   LET arr == [k \in 1..(b * c) |-> k] IN
   \A s \in 0..(b - 1), i \in 0..(c - 1) :
      /\ OnlyAddressed(arr, SetAt(arr, s, i, c, 0), s, i, c)
      /\ SetAt(arr, s, i, c, 0)[StateIdx(s, i, c) + 1] = 0
Emitted == (Emit /\ kind = "lookup") =>
   PrintT(<<"PROGRAM", ToJson([ts |-> ts, q |-> q, inf |-> InfEq(ts, q), sup |-> SupEq(ts, q),
                              closestTime |-> IF ts = <<>> THEN -1 ELSE ClosestTime(ts, q)])>>)
=============================================================================
