SPECIFICATION Spec
CONSTANT BoundCheckedFirst = TRUE
INVARIANT StaticSafe
INVARIANT CursorSafe
