SPECIFICATION MSpec
CONSTANTS
  Emit = TRUE
  Choices = {"absent", "default", "S1", "S2"}
INVARIANT RuleIsNearest
INVARIANT Emitted
