SPECIFICATION Spec
CONSTANTS
  TUnits <- MCTUnits
  Vals <- MCVals
  Lists <- MCLists
  Depth = 3
  Emit = FALSE
VIEW view
INVARIANT TypeOK
INVARIANT DefaultFollowsSamples
INVARIANT Emitted
PROPERTY ExplicitStays
PROPERTY UnitsChangeKeepsMeaning
PROPERTY OneQuantityPerSetter
