SPECIFICATION Spec
CONSTANTS
  Depth = 1
  Emit = FALSE
INVARIANT Refinement
