SPECIFICATION TSpec
INVARIANT Accepted
