SPECIFICATION TSpec
CONSTANTS
  ExpChoices <- ExpQuick
  Emit = FALSE
INVARIANT MachineIsGrammar
INVARIANT InGrammar
INVARIANT SlashIsNegative
INVARIANT OrderIrrelevant
INVARIANT PrintParse
