SPECIFICATION CSpec
INVARIANT Identity
INVARIANT Inverse
INVARIANT Composition
INVARIANT PowerLaw
INVARIANT Factorises
