------------------------------ MODULE EngineMem ------------------------------
(* Index safety of the hand-computed offsets of the native engine (C11): every array    *)
(* access of the C++ sources that is a function of the configuration is listed as        *)
(* <<array, index, length>>; the sampling cursor read is modelled dynamically, in the     *)
(* evaluation order of the code.                                                          *)
EXTENDS Integers, Sequences, FiniteSets, Geometry, TLC

CONSTANT BoundCheckedFirst     \* TRUE: "pos < n && t >= ts[pos]" ; FALSE: "t >= ts[pos] && pos < n" (the code before fix F2)
VARIABLES w, h, d, bc, nS, nR, nE, nTs, pos, reads
mv == <<w, h, d, bc, nS, nR, nE, nTs, pos, reads>>
N == w * h * d

Init == /\ w \in 1..2 /\ h \in 1..2 /\ d \in 1..2 /\ bc \in [1..3 -> BOOLEAN]
        /\ nS \in 1..2 /\ nR \in 0..2 /\ nE \in 1..2 /\ nTs \in 1..2 /\ pos = 0 /\ reads = {}

(* one evaluation of the while condition of SampleOnTSample with "t >= every requested time" (the worst case) *)
ReadTS == /\ pos <= nTs
          /\ IF BoundCheckedFirst
             THEN (IF pos < nTs THEN reads' = reads \cup {<<"t_samples", pos, nTs>>} /\ pos' = pos + 1
                   ELSE UNCHANGED <<reads, pos>>)
             ELSE reads' = reads \cup {<<"t_samples", pos, nTs>>} /\ pos' = (IF pos < nTs THEN pos + 1 ELSE pos)
          /\ (pos = nTs => pos' = pos)
          /\ UNCHANGED <<w, h, d, bc, nS, nR, nE, nTs>>
Next == ReadTS /\ (pos < nTs \/ ~BoundCheckedFirst \/ TRUE)
Spec == Init /\ [][Next]_mv

Env == [i \in 0..(N - 1) |-> i % nE]                   \* any valid environment map
Nbr(i, n) == EngineNbr(w, h, d, bc, i, n)
StaticAccesses ==
     {<<"mesh_x", i * nS + s, N * nS>> : i \in 0..(N - 1), s \in 0..(nS - 1)}
  \cup {<<"mesh_neighbors", i * 6 + n, N * 6>> : i \in 0..(N - 1), n \in 0..5}
  \cup {<<"mesh_kd", i * nS * 6 + s * 6 + n, nS * N * 6>> : i \in 0..(N - 1), s \in 0..(nS - 1), n \in 0..5}
  \cup {<<"mesh_kr", i * nR + r, N * nR>> : i \in 0..(N - 1), r \in 0..(nR - 1)}
  \cup {<<"k", Env[i] * nR + r, nE * nR>> : i \in 0..(N - 1), r \in 0..(nR - 1)}
  \cup {<<"sub", s * nR + r, nS * nR>> : s \in 0..(nS - 1), r \in 0..(nR - 1)}
  \cup {<<"D", s * nE + Env[i], nS * nE>> : i \in 0..(N - 1), s \in 0..(nS - 1)}
  \cup {<<"mesh_x[neighbour]", Nbr(i, n) * nS + s, N * nS>> : i \in {j \in 0..(N - 1) : TRUE}, n \in {m \in 0..5 : TRUE}, s \in 0..(nS - 1)}
  \cup {<<"trajectory_data", k * N * nS + s * N + i, 2 * N * nS>> : k \in 0..1, s \in 0..(nS - 1), i \in 0..(N - 1)}
(* neighbour -1 means "no neighbour": those accesses are guarded in the code *)
Guarded(a) == a[1] = "mesh_x[neighbour]" /\ a[2] < 0
InRange(a) == a[2] >= 0 /\ a[2] < a[3]
StaticSafe == \A a \in StaticAccesses : Guarded(a) \/ InRange(a)
CursorSafe == \A a \in reads : InRange(a)
=============================================================================
