
