------------------------------ MODULE Eval_Layout ------------------------------
(* TLC as the oracle for C13: default state / chemostat map of harness-supplied systems      *)
(* and the arrays after each step of an edit sequence (monomials in SI: molecules).            *)
EXTENDS Layout, Json, IOUtils, TLC
In  == JsonDeserialize(IOEnv.IN_FILE)
Out == IOEnv.OUT_FILE

M(x) == Mono(x.num, x.den, x.p10, x.p6, x.pNA)
Tab(t) == [e \in 1..Len(t) |-> IF Absent(t[e]) THEN t[e] ELSE [v |-> M(t[e].v)]]
Vols(t) == [e \in 1..Len(t) |-> M(t[e])]
RECURSIVE Run(_, _, _, _)
Run(state, chem, edits, N) ==
  IF edits = <<>> THEN <<>>
  ELSE LET e == Head(edits)
           st2 == IF e.op = "set_state" THEN SetAt(state, e.s, e.c, N, M(e.v)) ELSE state
           ch2 == IF e.op = "set_chem" THEN SetAt(chem, e.s, e.c, N, e.b) ELSE chem
       IN  <<[state |-> st2, chem |-> ch2,
              only |-> OnlyAddressed(state, st2, e.s, e.c, N) /\ OnlyAddressed(chem, ch2, e.s, e.c, N)]>> \o Run(st2, ch2, Tail(edits), N)
Case(t) ==
  LET N == Len(t.cellEnv)
      st0 == DefaultState(t.nS, t.cellEnv, Vols(t.vol), [s \in 1..t.nS |-> Tab(t.dens[s])])
      ch0 == DefaultChem(t.nS, t.cellEnv, t.chs)
  IN  [state |-> st0, chem |-> ch0, steps |-> Run(st0, ch0, t.edits, N)]
Result == [i \in 1..Len(In) |-> Case(In[i])]
ASSUME JsonSerialize(Out, Result)
ASSUME PrintT(<<"EVAL-DONE", Len(In)>>)
=============================================================================
