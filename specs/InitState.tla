------------------------------ MODULE InitState ------------------------------
(* Initial-state processing of the engine (C14), one species at a time (species are      *)
(* processed independently).  Real-valued amounts are given in quarters of a molecule      *)
(* (x[i] = 4 * amount), so that totals and floors are exact.                                *)
(*                                                                                          *)
(* Redistribution (GenerateStochasticDistribution) as a fair nondeterministic machine:      *)
(*   Draw   : a Poisson (or normal, above 100) draw per cell - any count, but 0 where the    *)
(*            real amount is 0                                                               *)
(*   Pick i : the correction loop picks the cell hit by target = u * Range, u in [0,1),       *)
(*            in the cumulative real amounts; it removes a molecule only if the cell has one  *)
(* RangeIsFloor = TRUE is the algorithm with target drawn over the FLOORED total (cells        *)
(* beyond it can never be hit - the hang of finding F3); FALSE is the repaired algorithm.      *)
EXTENDS Integers, Sequences, FiniteSets, TLC

CONSTANTS NCells, Amounts, MaxDraw, RangeIsFloor
VARIABLES x, sto, phase
iv == <<x, sto, phase>>

Cells == 1..NCells
RECURSIVE Sum(_, _)
Sum(f, n) == IF n = 0 THEN 0 ELSE f[n] + Sum(f, n - 1)
RealTotal4(xx) == Sum(xx, NCells)               \* in quarters
FloorTotal(xx) == RealTotal4(xx) \div 4
Cum4(xx, i) == Sum(xx, i)                        \* cumulative real amount up to and including cell i (quarters)
Range4(xx) == IF RangeIsFloor THEN 4 * FloorTotal(xx) ELSE RealTotal4(xx)
(* cell i is hit by some target in [0, Range): first cell whose cumulative amount exceeds the target *)
Hittable(xx, i) == xx[i] > 0 /\ (Cum4(xx, i - 1) < Range4(xx) \/ (Range4(xx) = 0 /\ Cum4(xx, i - 1) = 0))

IInit == x \in [Cells -> Amounts] /\ sto = [i \in Cells |-> 0] /\ phase = "draw"
Draw == /\ phase = "draw"
        /\ sto' \in {s \in [Cells -> 0..MaxDraw] : \A i \in Cells : x[i] = 0 => s[i] = 0}
        /\ phase' = "fix" /\ UNCHANGED x
Delta == Sum(sto, NCells) - FloorTotal(x)
Finish == phase = "fix" /\ Delta = 0 /\ phase' = "done" /\ UNCHANGED <<x, sto>>
Pick(i) == /\ phase = "fix" /\ Delta # 0 /\ Hittable(x, i)
           /\ IF Delta > 0 THEN sto' = (IF sto[i] > 0 THEN [sto EXCEPT ![i] = @ - 1] ELSE sto)
              ELSE sto' = [sto EXCEPT ![i] = @ + 1]
           /\ UNCHANGED <<x, phase>>
Productive == \E i \in Cells : Pick(i) /\ sto' # sto
INext == Draw \/ Finish \/ \E i \in Cells : Pick(i)
ISpec == IInit /\ [][INext]_iv /\ WF_iv(Draw) /\ WF_iv(Finish) /\ SF_iv(Productive)

(* what the user relies on *)
Post(xx, ss) == /\ \A i \in Cells : ss[i] >= 0
                /\ Sum(ss, NCells) = FloorTotal(xx)
                /\ \A i \in Cells : xx[i] = 0 => ss[i] = 0
PostHolds == phase = "done" => Post(x, sto)
NeverNegative == \A i \in Cells : sto[i] >= 0
ZeroStaysZero == \A i \in Cells : x[i] = 0 => sto[i] = 0
Terminates == <>(phase = "done")
(* Poisson mode: independent draws; zero stays zero *)
PoissonPost(xx, ss) == \A i \in Cells : ss[i] >= 0 /\ (xx[i] = 0 => ss[i] = 0)
=============================================================================
