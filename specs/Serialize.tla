------------------------------ MODULE Serialize ------------------------------
(* Dictionary forms (C12, C04, C20): which units system governs the bare numbers of     *)
(* each nesting level, which keys a reader accepts, and how nested file paths resolve.   *)
EXTENDS Integers, Sequences, FiniteSets, TLC

(* ---- units declarations ---- *)
Levels == <<"script", "system", "network", "species", "reaction", "space", "node", "edge">>
Parent(l) == CASE l = "system" -> "script" [] l = "network" -> "system" [] l = "space" -> "system"
               [] l = "species" -> "network" [] l = "reaction" -> "network" [] l = "node" -> "space" [] l = "edge" -> "space"
               [] OTHER -> "none"
(* what an omitted "units" key means at each level *)
WhenAbsent(l) == IF l = "script" THEN "default" ELSE "inherit"
(* decl[l] \in {"absent", "inherit", "default"} or the name of an explicit system; "D" is the default system *)
RECURSIVE Eff(_, _)
Eff(decl, l) ==
  LET d == IF decl[l] = "absent" THEN WhenAbsent(l) ELSE decl[l]
  IN  IF d = "default" THEN "D"
      ELSE IF d = "inherit" THEN (IF Parent(l) = "none" THEN "D" ELSE Eff(decl, Parent(l)))
      ELSE d
(* the same, said declaratively: walk up to the nearest level that says something definite *)
RECURSIVE Chain(_)
Chain(l) == IF l = "none" THEN <<>> ELSE <<l>> \o Chain(Parent(l))
Definite(decl, l) == decl[l] \notin {"absent", "inherit"} \/ (decl[l] = "absent" /\ WhenAbsent(l) = "default")
NearestDefinite(decl, l) ==
  LET ch == Chain(l)
      S == {i \in 1..Len(ch) : Definite(decl, ch[i])}
  IN  IF S = {} THEN "D"
      ELSE LET i == CHOOSE i \in S : \A j \in S : i <= j
               d == decl[ch[i]]
           IN  IF d = "default" \/ d = "absent" THEN "D" ELSE d

(* ---- keys: canonical name first, aliases after ---- *)
Keys == [
  script   |-> << <<"system">>, <<"t_sample">>, <<"time_step", "time step", "dt">>, <<"t_max", "tmax">>,
                  <<"sampling_policy", "sampling policy">>, <<"sampling_interval", "sampling interval">>,
                  <<"rng_seed", "rng seed", "seed">>, <<"init_state_processing">>,
                  <<"units", "units_system", "units system", "u">> >>,
  system   |-> << <<"network", "rdnetwork">>, <<"space", "rdspace">>, <<"state">>, <<"chemostats">>,
                  <<"units", "units_system", "units system", "u">> >>,
  network  |-> << <<"species">>, <<"reactions">>, <<"environments", "env">>, <<"units", "units_system", "units system", "u">> >>,
  species  |-> << <<"label", "l">>, <<"D", "diff_coef", "diffusion_coefficient", "diff coef", "diffusion coefficient">>,
                  <<"density", "concentration", "dens", "conc", "C">>, <<"chstt", "chemostat">>,
                  <<"units", "units_system", "units system", "u">> >>,
  reaction |-> << <<"stoichiometry", "eq", "sto", "equation">>, <<"label", "l">>, <<"k+", "kf">>, <<"k-", "kr">>,
                  <<"units", "units_system", "units system", "u">> >>,
  grid     |-> << <<"type">>, <<"w", "width">>, <<"h", "height">>, <<"d", "depth">>,
                  <<"cell_env", "cell_environments", "cell environments", "environments", "env">>,
                  <<"cell_volume", "cell_vol">>, <<"boundary_conditions">>, <<"units", "units_system", "units system", "u">> >>,
  graph    |-> << <<"type">>, <<"nodes">>, <<"edges">>, <<"units", "units_system", "units system", "u">> >>,
  node     |-> << <<"volume", "vol">>, <<"environment", "env">>, <<"units", "units_system", "units system", "u">> >>,
  edge     |-> << <<"nodes">>, <<"surface">>, <<"distance">>, <<"units", "units_system", "units system", "u">> >>,
  unitsys  |-> << <<"space">>, <<"time">>, <<"quantity">> >> ]
Mandatory == [script |-> {"system", "t_sample"}, system |-> {"network"}, network |-> {"species"}, species |-> {"label"},
              reaction |-> {"stoichiometry"}, grid |-> {}, graph |-> {"type", "nodes", "edges"}, node |-> {}, edge |-> {"nodes"},
              unitsys |-> {}]
AllNames(kind) == UNION {{Keys[kind][i][j] : j \in 1..Len(Keys[kind][i])} : i \in 1..Len(Keys[kind])}
GroupOf(kind, name) == CHOOSE i \in 1..Len(Keys[kind]) : \E j \in 1..Len(Keys[kind][i]) : Keys[kind][i][j] = name
(* a dictionary (as a set of key names) is acceptable iff every name is known, no two names are aliases *)
(* of one another, and every mandatory key is present under one of its names                           *)
Acceptable(kind, names) ==
  /\ names \subseteq AllNames(kind)
  /\ \A a, b \in names : a # b => GroupOf(kind, a) # GroupOf(kind, b)
  /\ \A m \in Mandatory[kind] : \E a \in names : Keys[kind][GroupOf(kind, a)][1] = m
NoAliasClash == \A kind \in DOMAIN Keys : \A i, j \in 1..Len(Keys[kind]) :
                  i # j => {Keys[kind][i][a] : a \in 1..Len(Keys[kind][i])} \cap {Keys[kind][j][b] : b \in 1..Len(Keys[kind][j])} = {}

(* ---- nested files: a path inside a file is absolute, or relative to the directory of that file ---- *)
IsAbs(p) == p # <<>> /\ p[1] = "/"
Dir(p) == SubSeq(p, 1, Len(p) - 1)                    \* a path is a sequence of components; "/" first = absolute
Resolve(includingFile, p) == IF IsAbs(p) THEN p ELSE Dir(includingFile) \o p
=============================================================================
