------------------------------- MODULE MC_Units -------------------------------
(* Expression programs over quantities (C05): an accumulator is combined, step by    *)
(* step, with generated operands on either side.  TLC checks the refinement           *)
(* (concrete dispatch rules = SI arithmetic, errors coincide) on every step and         *)
(* emits each program with the expected result of every step for replay into           *)
(* UnitValue / UnitArray.                                                               *)
EXTENDS Units, Json, IOUtils

Systems == JsonDeserialize(IOEnv.SYS_FILE)      \* the unit systems of this run: a sequence of <<space, time, quantity>>
CONSTANTS Depth, Emit

VARIABLES init, acc, hist
mv == <<init, acc, hist>>

Sys(i) == <<Systems[i][1], Systems[i][2], Systems[i][3]>>
NSys == Len(Systems)
Rs   == {<<1, 2>>, <<2, 1>>, <<3, 1>>, <<5, 4>>, <<-3, 2>>, <<7, 1>>}
Pos  == {<<1, 2>>, <<2, 1>>, <<5, 4>>, <<7, 1>>}
Dims == {<<0, 0, 0>>, <<1, 0, 0>>, <<0, 1, 0>>, <<0, 0, 1>>, <<3, 0, 0>>, <<-3, 0, 1>>, <<2, -1, 0>>, <<0, -1, 1>>, <<-3, -1, 1>>, <<6, -2, -2>>}
Exps == {<<2, 1>>, <<3, 1>>, <<-1, 1>>, <<-2, 1>>, <<0, 1>>, <<1, 2>>, <<1, 3>>, <<2, 3>>}

ScaleOf(q) == IF q.k = "uv" THEN ScalePart(q.v) ELSE ScalePart(q.vs[1])
ValsOf(q)  == IF q.k = "uv" THEN <<q.v>> ELSE q.vs
NonZero(q) == \A i \in 1..Len(ValsOf(q)) : ValsOf(q)[i].num # 0
OtherDim(d) == IF d = <<1, 0, 0>> THEN <<0, 1, 0>> ELSE <<1, 0, 0>>

(* operands whose value, once converted to acc's system, is r * (scale of acc): sums stay exact *)
Matched(r, s) == MMul(MMul(MRat(r), ScaleOf(acc)), Conv(acc.sys, Sys(s), acc.dim))
AdditiveOperands ==
     {UV(Matched(r, s), Sys(s), acc.dim) : r \in Rs, s \in 1..NSys}
  \cup {UV(MRat(r), Sys(s), OtherDim(acc.dim)) : r \in {<<2, 1>>}, s \in {1, NSys}}                 \* wrong dimension
  \cup (IF ScaleOf(acc) = MOne THEN {Num(MRat(r)) : r \in Rs} ELSE {})
  \cup {UA(<<Matched(r, s), Matched(<<2, 1>>, s)>>, Sys(s), acc.dim) : r \in {<<3, 1>>, <<-3, 2>>}, s \in 1..NSys}
  \cup {UA(<<Matched(<<2, 1>>, 1), Matched(<<2, 1>>, 1), Matched(<<2, 1>>, 1)>>, Sys(1), acc.dim)}   \* other length
  \cup {UA(<<Matched(<<2, 1>>, 1)>>, Sys(1), acc.dim)}                                                \* a single element is a length like any other
  \cup {UA(<<MRat(<<2, 1>>), MRat(<<3, 1>>)>>, Sys(1), OtherDim(acc.dim))}
MulOperands ==
     {UV(MRat(r), Sys(s), d) : r \in {<<2, 1>>, <<-3, 2>>, <<5, 4>>}, s \in 1..NSys, d \in Dims}
  \cup {Num(MRat(r)) : r \in Rs}
  \cup {UA(<<MRat(r), MRat(<<2, 1>>)>>, Sys(s), d) : r \in {<<3, 1>>}, s \in 1..NSys, d \in {<<1, 0, 0>>, <<-3, 0, 1>>, <<0, -1, 0>>}}
  \cup {UA(<<MRat(<<2, 1>>), MRat(<<2, 1>>), MRat(<<2, 1>>)>>, Sys(1), <<1, 0, 0>>)}
  \cup {UA(<<MRat(<<5, 1>>)>>, Sys(1), <<0, 1, 0>>)}
PowOperands == {Num(MRat(e)) : e \in Exps} \cup {UV(MRat(<<2, 1>>), Sys(1), Dimless)}
CmpOperands ==
     {UV(Matched(r, s), Sys(s), acc.dim) : r \in Rs, s \in 1..NSys}
  \cup {UV(MRat(<<2, 1>>), Sys(1), OtherDim(acc.dim))}
  \cup (IF ScaleOf(acc) = MOne THEN {Num(MRat(r)) : r \in Rs} ELSE {})
  \cup {UA(<<Matched(<<2, 1>>, 1), Matched(<<3, 1>>, 1)>>, Sys(1), acc.dim)}

(* guards that keep the binary64 replay away from discontinuities and cancellation *)
RAbsLt(a, b) == RLt(RAbs(a), RAbs(b))
FarApart(a, b) ==        \* |a| >= 1.5 |b| or |b| >= 1.5 |a| or opposite signs
  \/ (a[1] > 0 /\ b[1] < 0) \/ (a[1] < 0 /\ b[1] > 0) \/ a[1] = 0 \/ b[1] = 0
  \/ ~RLt(RAbs(a), RMul(<<3, 2>>, RAbs(b))) \/ ~RLt(RAbs(b), RMul(<<3, 2>>, RAbs(a)))
NoCancelPair(a, b, res) == res.num # 0 /\ ~RLt(RMul(R(8), RAbs(RatPart(res))), RAdd(RAbs(RatPart(a)), RAbs(RatPart(b))))
ResVals(r) == IF r.k = "uv" THEN <<r.v>> ELSE IF r.k = "ua" THEN r.vs ELSE <<>>
Healthy(op, x, accIsLeft, r) ==
  CASE op \in {"add", "sub"} ->
         (r.k \in {"uv", "ua"}) =>
            \A i \in 1..Len(ResVals(r)) :
               LET a == ValsOf(acc)[IF acc.k = "ua" THEN i ELSE 1]
                   b == IF x.k = "num" THEN x.v ELSE ValsOf(ConvTo(x, acc.sys))[IF x.k = "ua" THEN i ELSE 1]
               IN  NoCancelPair(a, MMul(b, MDiv(ScalePart(a), ScalePart(b))), ResVals(r)[i])
    [] op = "mod" ->
         (r.k \in {"uv", "ua"}) =>
            \A i \in 1..Len(ResVals(r)) :
               LET a0 == ValsOf(acc)[IF acc.k = "ua" THEN i ELSE 1]
                   b0 == IF x.k = "num" THEN x.v ELSE ValsOf(ConvTo(x, acc.sys))[IF x.k = "ua" THEN i ELSE 1]
                   a == IF accIsLeft THEN RatPart(a0) ELSE RatPart(b0)
                   b == IF accIsLeft THEN RatPart(b0) ELSE RatPart(a0)
                   q == RDiv(a, b)
                   fr == RSub(q, R(RFloor(q)))
               IN  /\ ~RLt(fr, <<1, 4>>) /\ ~RLt(<<3, 4>>, fr) /\ RLt(RAbs(q), <<40, 1>>)
    [] op \in {"lt", "le", "gt", "ge", "eq", "ne"} ->
         (x.k = "uv" /\ x.dim = acc.dim) =>
            LET a == RatPart(acc.v)  b == RatPart(ConvTo(x, acc.sys).v)
            IN  \/ (a # b /\ FarApart(a, b))
                \/ (a = b /\ hist = <<>> /\ x.sys = acc.sys)      \* exact equality only between literals of one system
    [] OTHER -> TRUE
ModOK(x) == (x.k = "num" => x.v.num # 0) /\ (IsQ(x) => NonZero(x))
DivOK(x, accIsLeft) == IF accIsLeft THEN ModOK(x) ELSE NonZero(acc)

Ops1 == {"neg", "abs", "pos"}
Step(op, x, left) ==
  LET r == Apply(op, acc, x, left)
  IN  /\ Healthy(op, x, left, r)
      /\ (Emit /\ Depth > 1 /\ r.k \notin {"uv", "ua"}) => Len(hist) = Depth - 1    \* generated programs end, not start, with a terminal step
      /\ acc' = r
      /\ hist' = Append(hist, [op |-> op, x |-> x, left |-> left, res |-> r, ref |-> Refines(op, acc, x, left)])
      /\ init' = init

Next ==
  /\ Len(hist) < Depth /\ acc.k \in {"uv", "ua"}
  /\ \/ \E op \in Ops1 : Step(op, Num(MOne), TRUE)
     \/ \E op \in {"add", "sub"}, x \in AdditiveOperands, left \in BOOLEAN : Step(op, x, left)
     \/ \E x \in MulOperands, left \in BOOLEAN : Step("mul", x, left)
     \/ \E x \in MulOperands, left \in BOOLEAN : DivOK(x, left) /\ Step("div", x, left)
     \/ \E x \in AdditiveOperands, left \in BOOLEAN :
          ModOK(x) /\ (left \/ NonZero(acc)) /\ (x.k = "num" => x.v.num > 0 \/ TRUE) /\ Step("mod", x, left)
     \/ \E x \in PowOperands, left \in BOOLEAN : (acc.k = "uv" => acc.v.num > 0) /\ Step("pow", x, left)
     \/ \E op \in {"lt", "le", "gt", "ge", "eq", "ne"}, x \in CmpOperands, left \in BOOLEAN :
          acc.k = "uv" /\ (x.k = "ua" => op \notin {"eq", "ne"}) /\ Step(op, x, left)

Inits ==
     {UV(MRat(r), Sys(s), d) : r \in {<<2, 1>>, <<5, 4>>, <<-3, 2>>}, s \in 1..NSys, d \in Dims}
  \cup {UA(<<MRat(r), MRat(<<7, 1>>)>>, Sys(s), d) : r \in {<<2, 1>>, <<1, 2>>}, s \in 1..NSys, d \in {<<1, 0, 0>>, <<-3, 0, 1>>, <<0, -1, 1>>}}
Init == init \in Inits /\ acc = init /\ hist = <<>>
Spec == Init /\ [][Next]_mv

Refinement == \A i \in 1..Len(hist) : hist[i].ref
Done == Len(hist) = Depth \/ acc.k \notin {"uv", "ua"}
Emitted == (Emit /\ Done /\ hist # <<>>) => PrintT(<<"PROGRAM", ToJson([init |-> init, steps |-> hist])>>)
=============================================================================
