---------------------------- MODULE MC_Simulate ----------------------------
EXTENDS Simulate
S1 == [kind |-> "fixed", dt |-> 2, tmax |-> 5, policy |-> 0, interval |-> 1, ts |-> <<0, 3, 3, 5>>, qs |-> <<>>, death |-> -2]
S2 == [kind |-> "fixed", dt |-> 1, tmax |-> 3, policy |-> 2, interval |-> 2, ts |-> <<3>>, qs |-> <<>>, death |-> -2]
S3 == [kind |-> "gill",  dt |-> 0, tmax |-> 4, policy |-> 1, interval |-> 1, ts |-> <<4>>, qs |-> <<>>, death |-> -1]
S4 == [kind |-> "fixed", dt |-> 2, tmax |-> 0, policy |-> 3, interval |-> 1, ts |-> <<0>>, qs |-> <<>>, death |-> -2]
S5 == [kind |-> "gill",  dt |-> 0, tmax |-> 6, policy |-> 0, interval |-> 1, ts |-> <<1, 2, 7>>, qs |-> <<>>, death |-> 2]
SConfigs == {S1, S2, S3, S4, S5}
=============================================================================
