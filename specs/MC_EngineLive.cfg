SPECIFICATION LiveSpec
CONSTANTS
  Objects = {"e1"}
  Sharing = "perObject"
  Deltas = {1, 2}
  MaxDepth = 0
  MaxK = 2
PROPERTY Terminates
INVARIANT StepBound
