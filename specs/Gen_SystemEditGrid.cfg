SPECIFICATION GenSpec
CONSTANTS
  NS = 2
  CellEnv <- MCCellEnv
  Vol <- MCVolGrid
  NE = 2
  Vals <- MCVals
  QUnits <- MCQUnits
  DensTabs <- MCDensTabs
  ChsTabs <- MCChsTabs
  UniformVol = TRUE
  VolVals <- MCVolVals
  Depth = 7
  Emit = TRUE
INVARIANT TypeOK
INVARIANT RegenReflectsEdits
INVARIANT DefaultIsLookup
INVARIANT Emitted
PROPERTY Independent
PROPERTY EntryEdits
PROPERTY ResetIsZero
