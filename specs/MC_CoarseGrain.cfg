SPECIFICATION CSpec
CONSTANTS
  Shapes <- QuickShapes
  MaxGroup = 3
  Emit = TRUE
INVARIANT VolumeConserved
INVARIANT AmountConserved
INVARIANT EnvKept
INVARIANT ChemIsOr
INVARIANT EdgesSound
INVARIANT EdgesComplete
INVARIANT UncoarseTotals
INVARIANT IdentityIsGrid
INVARIANT Emitted
