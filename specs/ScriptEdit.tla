------------------------------ MODULE ScriptEdit ------------------------------
(* The time parameters of one RDScript object as a state machine (C09: "t_max (default: the last requested time)",           *)
(* "all unit systems for the time quantities"; histories).  One action per public setter of rdscript.py:                     *)
(*   SetTSample   script.t_sample = list | UnitArray        SetTMax      script.t_max = number | quantity                   *)
(*   SetTMaxDefault  script.t_max = "default"               SetDt        script.time_step = ...                              *)
(*   SetInterval  script.sampling_interval = ...            SetPolicy    script.sampling_policy = ...                        *)
(*   SetUnits     script.units_system = UnitsSystem(time=u) (a new units system: quantities already stored keep their meaning) *)
(*   Copy         script = script.copy()                    RoundTrip    script = rdscript_from_dict(rdscript_to_dict(script)) *)
(* Times are physical, in milliseconds (integers); a bare number handed to a setter is in the script's time unit at that moment. *)
EXTENDS Integers, Sequences, FiniteSets, Json, TLC

CONSTANTS TUnits,      \* time units used (subset of {"ms", "s", "min"})
          Vals,        \* numbers handed to setters
          Lists,       \* non-decreasing number lists handed to the t_sample setter
          Depth, Emit

VARIABLES tunit, ts, tmax, dt, interval, policy, hist, pick
vars == <<tunit, ts, tmax, dt, interval, policy, hist, pick>>
view == <<tunit, ts, tmax, dt, interval, policy, Len(hist)>>

Scale(u) == CASE u = "ms" -> 1 [] u = "s" -> 1000 [] u = "min" -> 60000
Phys(v, u) == v * Scale(IF u = "bare" THEN tunit ELSE u)
Policies == {"on_t_sample", "on_iteration", "on_interval", "no_sampling"}
EffTMax == IF tmax = -1 THEN ts[Len(ts)] ELSE tmax            \* -1 stands for "default"
Step(op, args) == hist' = Append(hist, [op |-> op, args |-> args, ts |-> ts', tmax |-> IF tmax' = -1 THEN ts'[Len(ts')] ELSE tmax',
                                        isdefault |-> tmax' = -1, dt |-> dt', interval |-> interval', policy |-> policy', tunit |-> tunit', tunit_before |-> tunit])

Init ==
  /\ tunit \in TUnits
  /\ ts = [i \in 1..2 |-> (i - 1) * Scale(tunit)]      \* RDScript(t_sample=[0, 1]) in the script's units
  /\ tmax = -1
  /\ dt = Scale("ms")                                   \* the harness builds the object with time_step = 1 ms, sampling_interval = 1 s
  /\ interval = Scale("s")
  /\ policy = "on_t_sample"
  /\ hist = <<>> /\ pick = "none"

SetTSample(l, u) ==
  /\ ts' = [i \in 1..Len(l) |-> Phys(l[i], u)]
  /\ UNCHANGED <<tunit, tmax, dt, interval, policy>>
  /\ Step("set_t_sample", [l |-> l, u |-> u])
SetTMax(v, u) ==
  /\ tmax' = Phys(v, u)
  /\ UNCHANGED <<tunit, ts, dt, interval, policy>>
  /\ Step("set_t_max", [v |-> v, u |-> u])
SetTMaxDefault ==
  /\ tmax' = -1
  /\ UNCHANGED <<tunit, ts, dt, interval, policy>>
  /\ Step("set_t_max_default", [x |-> 0])
SetDt(v, u) ==
  /\ v > 0
  /\ dt' = Phys(v, u)
  /\ UNCHANGED <<tunit, ts, tmax, interval, policy>>
  /\ Step("set_dt", [v |-> v, u |-> u])
SetInterval(v, u) ==
  /\ v > 0
  /\ interval' = Phys(v, u)
  /\ UNCHANGED <<tunit, ts, tmax, dt, policy>>
  /\ Step("set_interval", [v |-> v, u |-> u])
SetPolicy(p) ==
  /\ policy' = p
  /\ UNCHANGED <<tunit, ts, tmax, dt, interval>>
  /\ Step("set_policy", [p |-> p])
SetUnits(u) ==
  /\ u # tunit
  /\ tunit' = u
  /\ UNCHANGED <<ts, tmax, dt, interval, policy>>
  /\ Step("set_units", [u |-> u])
(* the environment: the caller overwrites, in place, the lists / arrays / units-system objects it handed to setters earlier.   *)
(* The script holds its own, so this is a stuttering step for the script - named so that TLC places it anywhere in a history    *)
CallerEdits ==
  /\ UNCHANGED <<tunit, ts, tmax, dt, interval, policy>>
  /\ Step("caller_edits", [x |-> 0])
Copy ==
  /\ UNCHANGED <<tunit, ts, tmax, dt, interval, policy>>
  /\ Step("copy", [x |-> 0])
(* the dictionary form of a script states the end of the run as a quantity: what is read back ends at the same time, but no   *)
(* longer follows later changes of the sample list (the code as it is; the physical content of the script is unchanged)        *)
RoundTrip ==
  /\ tmax' = EffTMax
  /\ UNCHANGED <<tunit, ts, dt, interval, policy>>
  /\ Step("roundtrip", [x |-> 0])

US == TUnits \cup {"bare"}
Kinds == {"set_t_sample", "set_t_max", "set_t_max_default", "set_dt", "set_interval", "set_policy", "set_units", "copy", "roundtrip", "caller_edits"}
OfKind(k) == CASE k = "set_t_sample" -> \E l \in Lists, u \in US : SetTSample(l, u)
               [] k = "set_t_max" -> \E v \in Vals, u \in US : SetTMax(v, u)
               [] k = "set_t_max_default" -> SetTMaxDefault
               [] k = "set_dt" -> \E v \in Vals, u \in US : SetDt(v, u)
               [] k = "set_interval" -> \E v \in Vals, u \in US : SetInterval(v, u)
               [] k = "set_policy" -> \E p \in Policies : SetPolicy(p)
               [] k = "set_units" -> \E u \in TUnits : SetUnits(u)
               [] k = "copy" -> Copy [] k = "roundtrip" -> RoundTrip [] k = "caller_edits" -> CallerEdits
Next == /\ Len(hist) < Depth /\ pick' = pick /\ \E k \in Kinds : OfKind(k)
GenNext ==
  \/ /\ pick = "none" /\ Len(hist) < Depth /\ pick' \in Kinds
     /\ UNCHANGED <<tunit, ts, tmax, dt, interval, policy, hist>>
  \/ /\ pick # "none" /\ pick' = "none" /\ OfKind(pick)
Spec == Init /\ [][Next]_vars
GenSpec == Init /\ [][GenNext]_vars

(* ---- properties ---- *)
TypeOK == /\ Len(ts) >= 1 /\ \A i \in 1..(Len(ts) - 1) : ts[i] <= ts[i + 1]
          /\ dt > 0 /\ interval > 0 /\ policy \in Policies /\ tunit \in TUnits
(* the default end of a run follows the sample list: whatever was assigned since, and in whatever unit *)
DefaultFollowsSamples == tmax = -1 => EffTMax = ts[Len(ts)]
(* an explicit end of run does not follow the sample list *)
ExplicitStays == [][(tmax # -1 /\ tmax' = tmax) => EffTMax' = EffTMax]_vars
(* changing the script's units changes the meaning of no quantity already stored; a setter changes its own quantity only *)
UnitsChangeKeepsMeaning == [][tunit' # tunit => (ts' = ts /\ tmax' = tmax /\ dt' = dt /\ interval' = interval)]_vars
OneQuantityPerSetter == [][Cardinality({q \in {"ts", "tmax", "dt", "interval", "policy", "tunit"} :
                             CASE q = "ts" -> ts' # ts [] q = "tmax" -> tmax' # tmax [] q = "dt" -> dt' # dt
                               [] q = "interval" -> interval' # interval [] q = "policy" -> policy' # policy [] q = "tunit" -> tunit' # tunit}) <= 1]_vars

Done == Len(hist) = Depth /\ pick = "none"
Emitted == (Emit /\ Done) => PrintT(<<"PROGRAM", ToJson([tunit0 |-> hist[1].tunit_before, steps |-> hist])>>)
=============================================================================
