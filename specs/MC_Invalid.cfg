SPECIFICATION VSpec
INVARIANT Emitted
