SPECIFICATION RSpec
CONSTANTS
  MaxTerms = 2
  MaxTerms2 = 2
  Emit = FALSE
INVARIANT RoundTripTight
INVARIANT RoundTripLoose
INVARIANT PrintParse
INVARIANT PrintStable
INVARIANT OrderIsSum
INVARIANT NetIsDiff
INVARIANT ReverseSwaps
