SPECIFICATION TraceSpec
CONSTANTS
  Objects = {"e1", "e2"}
  Sharing = "perObject"
  Deltas = {2}
INVARIANT Progress
INVARIANT InvShape
INVARIANT InvStepTimes
INVARIANT InvRecIsStep
INVARIANT InvT0Record
INVARIANT InvPolicyMono
INVARIANT InvAllMono
INVARIANT InvOnePerStep
INVARIANT InvOnTSample
INVARIANT InvOnTSampleEnd
INVARIANT InvOnIteration
INVARIANT InvOnInterval
INVARIANT InvNoSampling
INVARIANT InvFixedEnd
INVARIANT InvGillEnd
INVARIANT InvPosRange
INVARIANT InvStatusCurrent
PROPERTY StickyComplete
PROPERTY IdleAfterDone
PROPERTY OnlyIterationsAdvance
PROPERTY ObserversReadOnly
PROPERTY ManualRule
PROPERTY Isolation
PROPERTY CleanSlate
