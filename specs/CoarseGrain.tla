----------------------------- MODULE CoarseGrain -----------------------------
(* Coarse-graining of a grid system with an index map (C16).  Cells are 0-based;      *)
(* map[c+1] is the group of cell c, or -1 to drop it.  Lengths are in units of the      *)
(* cell edge, so a face has area 1 and neighbouring centres are at distance 1;           *)
(* centroid distances are compared squared, as exact rationals.                          *)
EXTENDS Geometry, Rat, TLC

MaxOfMap(map) == LET S == {map[i] : i \in 1..Len(map)} IN CHOOSE m \in S : \A x \in S : x <= m
Members(map, g) == {c \in 0..(Len(map) - 1) : map[c + 1] = g}
Groups(map) == 0..MaxOfMap(map)

(* the documented rules: right length, integers >= -1, at least one group, every group 0..max *)
(* non-empty, no group mixing environments.  Nothing is required of the dropped cells.      *)
ValidMap(map, N, env) ==
  /\ Len(map) = N
  /\ \A i \in 1..N : map[i] >= -1
  /\ MaxOfMap(map) >= 0
  /\ \A g \in Groups(map) : Members(map, g) # {}
  /\ \A g \in Groups(map) : \A c1, c2 \in Members(map, g) : env[c1 + 1] = env[c2 + 1]

RECURSIVE SumSet(_, _)
SumSet(S, f) == IF S = {} THEN 0 ELSE LET x == CHOOSE x \in S : TRUE IN f[x + 1] + SumSet(S \ {x}, f)

GroupSize(map, g)   == Cardinality(Members(map, g))
GroupEnv(map, env, g) == env[(CHOOSE c \in Members(map, g) : TRUE) + 1]
GroupChem(map, chem, g) == \E c \in Members(map, g) : chem[c + 1]
GroupSum(map, x, g)  == SumSet(Members(map, g), x)

(* faces shared by two groups: pairs of face-adjacent cells (reflecting grid), one in each *)
FacePairs(w, h, d) ==
  {<<i, j>> \in Cells(w, h, d) \X Cells(w, h, d) : i < j /\ AreNeighbors(w, h, d, <<FALSE, FALSE, FALSE>>, i, j)}
SharedFaces(w, h, d, map, g1, g2) ==
  Cardinality({p \in FacePairs(w, h, d) : (map[p[1] + 1] = g1 /\ map[p[2] + 1] = g2) \/ (map[p[1] + 1] = g2 /\ map[p[2] + 1] = g1)})
(* centroid of a group: mean of member coordinates, as rationals *)
RECURSIVE SumCoord(_, _, _, _)
SumCoord(S, w, h, axis) ==
  IF S = {} THEN 0
  ELSE LET c == CHOOSE c \in S : TRUE
           v == IF axis = 1 THEN CX(w, h, c) ELSE IF axis = 2 THEN CY(w, h, c) ELSE CZ(w, h, c)
       IN  v + SumCoord(S \ {c}, w, h, axis)
Centroid(w, h, map, g, axis) == Norm(SumCoord(Members(map, g), w, h, axis), GroupSize(map, g))
Dist2(w, h, map, g1, g2) ==
  LET dd(axis) == RSub(Centroid(w, h, map, g1, axis), Centroid(w, h, map, g2, axis))
  IN  RAdd(RAdd(RMul(dd(1), dd(1)), RMul(dd(2), dd(2))), RMul(dd(3), dd(3)))
(* edges: unordered pairs g1 < g2 with at least one shared face - no self-loops, no duplicates *)
EdgeSet(w, h, d, map) == {<<g1, g2>> \in Groups(map) \X Groups(map) : g1 < g2 /\ SharedFaces(w, h, d, map, g1, g2) > 0}

(* un-coarse-graining: each member gets the group's value divided by the group size; dropped cells 0 *)
Uncoarse(map, gval, c) == IF map[c + 1] = -1 THEN Zero ELSE Norm(gval[map[c + 1] + 1], GroupSize(map, map[c + 1]))

Retained(map) == {c \in 0..(Len(map) - 1) : map[c + 1] # -1}
=============================================================================
