--------------------------- MODULE MC_ReactionEdit ---------------------------
EXTENDS ReactionEdit
MCEqs == {[fo |-> 1, ro |-> 1, id |-> 1, rev |-> FALSE], [fo |-> 2, ro |-> 1, id |-> 2, rev |-> FALSE],
          [fo |-> 2, ro |-> 0, id |-> 3, rev |-> FALSE], [fo |-> 0, ro |-> 3, id |-> 4, rev |-> FALSE]}
MCSystems == {<<"µm", "s", "molecule">>, <<"nm", "ms", "mol">>, <<"cm", "min", "µmol">>}
MCVals == {0, 4, 5}
=============================================================================
