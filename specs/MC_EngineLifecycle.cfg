SPECIFICATION LSpec
CONSTANTS
  Objects = {"e1", "e2"}
  Sharing = "perObject"
  Deltas = {1, 2}
  MaxDepth = 6
  MaxK = 2
CONSTRAINT LBound
VIEW LView
INVARIANT InvShape
INVARIANT InvStepTimes
INVARIANT InvRecIsStep
INVARIANT InvT0Record
INVARIANT InvPolicyMono
INVARIANT InvAllMono
INVARIANT InvOnePerStep
INVARIANT InvOnTSample
INVARIANT InvOnTSampleEnd
INVARIANT InvOnIteration
INVARIANT InvOnInterval
INVARIANT InvNoSampling
INVARIANT InvFixedEnd
INVARIANT InvGillEnd
INVARIANT InvPosRange
INVARIANT InvStatusCurrent
INVARIANT InvNoUndefined
INVARIANT StepBound
PROPERTY StickyComplete
PROPERTY IdleAfterDone
PROPERTY OnlyIterationsAdvance
PROPERTY ObserversReadOnly
PROPERTY ManualRule
PROPERTY Isolation
PROPERTY CleanSlate
