------------------------------- MODULE Layout -------------------------------
(* Array layouts (C13, C17): where a (species, cell) entry lives in the state and      *)
(* chemostat arrays, where a (sample, species, cell) entry lives in trajectory data,      *)
(* the default state / chemostat map, the per-entry editor, and the sample-index lookup. *)
EXTENDS Integers, Sequences, FiniteSets, SIMonomial

(* ---- indices (0-based, as in the code) ---- *)
StateIdx(s, c, N)         == s * N + c
TrajIdx(n, s, c, S, N)    == n * S * N + s * N + c
(* row-major offset of element (n, s, c) in an array reshaped to (ns, S, N) *)
Reshape3(n, s, c, S, N)   == (n * S + s) * N + c
(* row-major offset of element (n, k) in an array reshaped to (ns, S*N): the whole-state block *)
Reshape2(n, k, S, N)      == n * (S * N) + k

(* ---- default state: density in the cell's environment (-> 'default' -> 0) times the cell's volume ---- *)
(* dens[s][1] is the 'default' entry, dens[s][e+2] the entry of environment e; an entry is [absent |-> TRUE]  *)
(* or [v |-> value]; all values in SI (molecules per m^3, m^3)                                               *)
Absent(x) == "absent" \in DOMAIN x
InEnv(tab, e, zero) == IF ~Absent(tab[e + 2]) THEN tab[e + 2].v ELSE IF ~Absent(tab[1]) THEN tab[1].v ELSE zero
DefaultState(nS, cellEnv, vol, dens) ==
  LET N == Len(cellEnv) IN
  [k \in 1..(nS * N) |->
     LET s == (k - 1) \div N  c == (k - 1) % N
     IN  MMul(InEnv(dens[s + 1], cellEnv[c + 1], MZero), vol[c + 1])]
DefaultChem(nS, cellEnv, chs) ==
  LET N == Len(cellEnv) IN
  [k \in 1..(nS * N) |-> LET s == (k - 1) \div N  c == (k - 1) % N IN InEnv(chs[s + 1], cellEnv[c + 1], FALSE)]

(* ---- the editor: an edit touches exactly the addressed entry ---- *)
SetAt(arr, s, c, N, v) == [arr EXCEPT ![StateIdx(s, c, N) + 1] = v]
OnlyAddressed(before, after, s, c, N) ==
  \A k \in 1..Len(before) : k # StateIdx(s, c, N) + 1 => after[k] = before[k]

(* ---- sample-index lookup over recorded times ts (non-decreasing), query q ---- *)
(* declaratively *)
NotAfter(ts, q)  == {i \in 1..Len(ts) : ts[i] <= q}
NotBefore(ts, q) == {i \in 1..Len(ts) : ts[i] >= q}
MaxOf(S) == CHOOSE x \in S : \A y \in S : y <= x
MinOf(S) == CHOOSE x \in S : \A y \in S : x <= y
InfEq(ts, q) == IF NotAfter(ts, q) = {} THEN 0 ELSE MaxOf(NotAfter(ts, q))      \* 0 = None ; 1-based otherwise
SupEq(ts, q) == IF NotBefore(ts, q) = {} THEN 0 ELSE MinOf(NotBefore(ts, q))
Dist(a, b) == IF a < b THEN b - a ELSE a - b
(* closest: the smallest distance; between two different times equally far, the earlier one *)
ClosestTime(ts, q) ==
  LET best == MinOf({Dist(ts[i], q) : i \in 1..Len(ts)})
  IN  MinOf({ts[i] : i \in {j \in 1..Len(ts) : Dist(ts[j], q) = best}})
ClosestOK(ts, q, i) == IF ts = <<>> THEN i = 0 ELSE i \in 1..Len(ts) /\ ts[i] = ClosestTime(ts, q)

(* as the linear scans of rdoutput.py (returning 1-based index, 0 for None, -1 for "fell through") *)
RECURSIVE ScanClosest(_, _, _)
ScanClosest(ts, q, i) ==
  IF i > Len(ts) - 1 THEN -1
  ELSE IF q >= ts[i] /\ q < ts[i + 1] THEN (IF q - ts[i] <= ts[i + 1] - q THEN i ELSE i + 1)
  ELSE ScanClosest(ts, q, i + 1)
CodeClosest(ts, q) == IF ts = <<>> THEN 0 ELSE IF q <= ts[1] THEN 1 ELSE IF q >= ts[Len(ts)] THEN Len(ts) ELSE ScanClosest(ts, q, 1)
RECURSIVE ScanInf(_, _, _)
ScanInf(ts, q, i) == IF i > Len(ts) - 1 THEN -1 ELSE IF q >= ts[i] /\ q < ts[i + 1] THEN i ELSE ScanInf(ts, q, i + 1)
CodeInfEq(ts, q) == IF ts = <<>> THEN 0 ELSE IF q < ts[1] THEN 0 ELSE IF q >= ts[Len(ts)] THEN Len(ts) ELSE ScanInf(ts, q, 1)
RECURSIVE ScanSup(_, _, _)
ScanSup(ts, q, i) == IF i > Len(ts) - 1 THEN -1 ELSE IF q > ts[i] /\ q <= ts[i + 1] THEN i + 1 ELSE ScanSup(ts, q, i + 1)
CodeSupEq(ts, q) == IF ts = <<>> THEN 0 ELSE IF q <= ts[1] THEN 1
                    ELSE IF q > ts[Len(ts)] THEN 0 ELSE ScanSup(ts, q, 1)
=============================================================================
