---------------------------- MODULE MC_UnitText ----------------------------
(* C18 on the model, exhaustively over all expressions with one or two factors:  *)
(*   MachineIsGrammar   the character machine reads every grammatical text with     *)
(*                      the meaning the grammar gives it (both micro spellings)      *)
(*   InGrammar          and recognises it                                            *)
(*   SlashIsNegative    a/b  and  a.b-1  mean the same                                *)
(*   OrderIrrelevant    factor order does not matter                                  *)
(*   PrintParse         Parse(Print(u)) = u for the unit every text denotes            *)
EXTENDS UnitText, Json

CONSTANTS ExpChoices,    \* exponents written explicitly
          Emit

ExpQuick == {-3, -1, 2, 9}
ExpFull == (-9..9) \ {1}

VARIABLES fs, n
tv == <<fs, n>>

Factor(i, e, has, sep) == [sym |-> i, e |-> e, hasE |-> has, sep |-> sep]
Factors(sep) == {Factor(i, 1, FALSE, sep) : i \in 1..NSym} \cup {Factor(i, e, TRUE, sep) : i \in 1..NSym, e \in ExpChoices}

TInit == n = 1 /\ \E f \in Factors(".") : fs = <<f>>
TNext == n = 1 /\ n' = 2 /\ \E sep \in {".", "/"} : \E f \in Factors(sep) : fs' = Append(fs, f)
TSpec == TInit /\ [][TNext]_tv

Text == Render(fs, "µ")
MachineIsGrammar == /\ SameUnits(Machine(Text), Meaning(fs)) /\ Machine(Text) = Meaning(fs)
                    /\ Machine(Render(fs, "u")) = Meaning(fs)
InGrammar        == Recognise(Text) /\ Recognise(Render(fs, "u"))
Swap(f) == IF f.sep = "/" THEN [f EXCEPT !.sep = ".", !.e = -f.e, !.hasE = TRUE] ELSE f
SlashIsNegative  == n = 2 => SameUnits(Meaning(fs), Meaning(<<fs[1], Swap(fs[2])>>))
                             /\ SameUnits(Machine(Text), Machine(Render(<<fs[1], Swap(fs[2])>>, "µ")))
Reordered == <<[fs[2] EXCEPT !.sep = ".", !.e = IF fs[2].sep = "/" THEN -fs[2].e ELSE fs[2].e, !.hasE = TRUE],
               [fs[1] EXCEPT !.hasE = TRUE]>>
OrderIrrelevant  == n = 2 => SameUnits(Meaning(fs), Meaning(Reordered)) /\ SameUnits(Machine(Text), Machine(Render(Reordered, "µ")))
Filled(m, k) == IF k = 1 THEN (IF m.sp = "" THEN "µm" ELSE m.sp) ELSE IF k = 2 THEN (IF m.ti = "" THEN "s" ELSE m.ti)
                ELSE (IF m.qu = "" THEN "molecule" ELSE m.qu)
PrintParse == LET m == Meaning(fs) IN
              m.ok => SameUnits(Machine(PrintUnits(<<Filled(m, 1), Filled(m, 2), Filled(m, 3)>>, m.dim)), m)

Emitted == Emit => PrintT(<<"PROGRAM", ToJson([t |-> Text, u |-> Render(fs, "u"), m |-> Meaning(fs)])>>)
=============================================================================
