-------------------------- MODULE MC_EngineSchedule --------------------------
(* C08 on the model: whatever way the iteration sequence is cut into iterate /   *)
(* iterate_n(k) / run slices and interleaved with observers, the records are a    *)
(* prefix of - and at completion equal to - the records of the one-shot run.       *)
EXTENDS Engine, SequencesExt

CONSTANTS MaxK, MaxDepth

SFamily ==
  {[kind |-> k, dt |-> 2, tmax |-> tm, policy |-> p, interval |-> 3, ts |-> ts, qs |-> <<>>, death |-> d] :
     k \in {"fixed", "gill"}, tm \in {3, 6}, p \in 0..3, ts \in {<<0, 3>>, <<1, 1, 5>>, <<7>>},
     d \in {-2, 2}}

Rel(c) == (c.kind = "fixed" => c.death = -2)

OneShot(c) == CHOOSE b \in IterNSet(NativeInit(c), 20) : TRUE     \* deterministic: Deltas is a singleton, death is known

SInit ==
  /\ \E c \in {x \in SFamily : Rel(x)} : alg = [s \in Slot |-> NativeInit(c)]
  /\ unf = [e \in Objects |-> TRUE] /\ has = [e \in Objects |-> TRUE]
  /\ undef = FALSE /\ obs = [call |-> "init"]

SNext ==
  \E e \in Objects :
     \/ Iterate(e)
     \/ \E k \in 1..MaxK : IterateN(e, k)
     \/ Run(e, 1..MaxK)
     \/ GetProgress(e) \/ IsComplete(e) \/ GetOutput(e)

SSpec == SInit /\ [][SNext]_vars
SBound == TLCGet("level") <= MaxDepth
SView == core

ScheduleIndependence ==
  \A a \in LiveAlgs :
     LET f == OneShot(a.cfg)
     IN  /\ IsPrefix(a.recN, f.recN) /\ IsPrefix(a.recT, f.recT) /\ IsPrefix(a.stepT, f.stepT)
         /\ a.complete => (a.recN = f.recN /\ a.recT = f.recT /\ a.n = f.n /\ a.t = f.t)
OneShotCompletes == \A a \in LiveAlgs : OneShot(a.cfg).complete
=============================================================================
