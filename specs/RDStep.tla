------------------------------- MODULE RDStep -------------------------------
(* Step relations of the three engines over one configuration (C07, C02, C03). *)
(* x[i][s] : amount of species s in cell i.                                    *)
EXTENDS RDModel

(* one firing of reaction r in cell i: chemostated entries are exempt from the change *)
FireRes(c, x, i, r) ==
  [ii \in CellsOf(c) |->
     [s \in SpeciesOf(c) |-> IF ii = i /\ ~c.chs[i][s] THEN x[i][s] + c.sto[r][s] ELSE x[ii][s]]]

(* one molecule of s moves from i to its n-th neighbour entry; each end skipped iff chemostated *)
MoveRes(c, x, i, s, n) ==
  LET j == c.nbr[i][n].j
      d1 == [ii \in CellsOf(c) |-> [ss \in SpeciesOf(c) |->
               IF ii = i /\ ss = s /\ ~c.chs[i][s] THEN x[ii][ss] - 1 ELSE x[ii][ss]]]
  IN  [ii \in CellsOf(c) |-> [ss \in SpeciesOf(c) |->
               IF ii = j /\ ss = s /\ ~c.chs[j][s] THEN d1[ii][ss] + 1 ELSE d1[ii][ss]]]

CanFire(c, x, i, r)    == RPos(Prop(c, x, i, r))
CanMove(c, x, i, s, n) == RPos(DiffProp(c, x, i, s, n))

(* exactly one event that is possible in the state before it *)
GStep(c, x, y) ==
  \/ \E i \in CellsOf(c), r \in ReacsOf(c) : CanFire(c, x, i, r) /\ y = FireRes(c, x, i, r)
  \/ \E i \in CellsOf(c), s \in SpeciesOf(c) : \E n \in 1..Len(c.nbr[i]) :
        CanMove(c, x, i, s, n) /\ y = MoveRes(c, x, i, s, n)

A0IsZero(c, x) ==
  /\ \A i \in CellsOf(c), r \in ReacsOf(c) : ~CanFire(c, x, i, r)
  /\ \A i \in CellsOf(c), s \in SpeciesOf(c) : \A n \in 1..Len(c.nbr[i]) : ~CanMove(c, x, i, s, n)

NonNeg(c, x)   == \A i \in CellsOf(c), s \in SpeciesOf(c) : x[i][s] >= 0
Conserved(c, x0, x) == \A v \in ConsLaws(c) : Total(c, v, x) = Total(c, v, x0)
ChemostatsHeld(c, x0, x) == \A i \in CellsOf(c), s \in SpeciesOf(c) : c.chs[i][s] => x[i][s] = x0[i][s]

(* the generator of the continuous-time Markov chain at state x (for the statistical part) *)
Rates(c, x) ==
  [reac |-> [i \in CellsOf(c) |-> [r \in ReacsOf(c) |-> Prop(c, x, i, r)]],
   diff |-> [i \in CellsOf(c) |-> [s \in SpeciesOf(c) |-> [n \in 1..Len(c.nbr[i]) |-> DiffProp(c, x, i, s, n)]]]]

(* tau-leap: a bag of events, each possible in the state before the step *)
LeapRes(c, x, nr, nd) ==     \* nr[i][r], nd[i][s][n] event counts
  [i \in CellsOf(c) |-> [s \in SpeciesOf(c) |->
     IF c.chs[i][s] THEN x[i][s]
     ELSE x[i][s]
          + SumTo([r \in ReacsOf(c) |-> c.sto[r][s] * nr[i][r]], c.nR)
          - SumTo([n \in 1..Len(c.nbr[i]) |-> nd[i][s][n]], Len(c.nbr[i]))
          + SumTo([ii \in CellsOf(c) |->
                     SumTo([n \in 1..Len(c.nbr[ii]) |-> IF c.nbr[ii][n].j = i THEN nd[ii][s][n] ELSE 0], Len(c.nbr[ii]))], c.nC)]]
LeapOK(c, x, nr, nd) ==
  /\ \A i \in CellsOf(c), r \in ReacsOf(c) : nr[i][r] >= 0 /\ (nr[i][r] > 0 => CanFire(c, x, i, r))
  /\ \A i \in CellsOf(c), s \in SpeciesOf(c) : \A n \in 1..Len(c.nbr[i]) :
        nd[i][s][n] >= 0 /\ (nd[i][s][n] > 0 => CanMove(c, x, i, s, n))

(* Euler: x' = x + dt F(x), in exact rationals *)
EulerRes(c, x, dt) ==
  [i \in CellsOf(c) |-> [s \in SpeciesOf(c) |-> RAdd(x[i][s], RMul(dt, FEngine(c, x, i, s, TRUE)))]]
=============================================================================
