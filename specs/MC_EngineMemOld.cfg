SPECIFICATION Spec
CONSTANT BoundCheckedFirst = FALSE
INVARIANT StaticSafe
INVARIANT CursorSafe
