---------------------------- MODULE OffsetsInd ----------------------------
(* Unbounded (all sizes) safety of the hand-computed flat offsets of the native engine and of the   *)
(* sampling cursor, for Apalache: one symbolic access is chosen in Init; the invariant is that it   *)
(* lies inside its array.  Complements MC_EngineMem (TLC, all accesses of all small shapes).        *)
EXTENDS Integers

VARIABLES
  \* @type: Int;
  nC,
  \* @type: Int;
  nS,
  \* @type: Int;
  nR,
  \* @type: Int;
  nE,
  \* @type: Int;
  i,
  \* @type: Int;
  s,
  \* @type: Int;
  r,
  \* @type: Int;
  n,
  \* @type: Int;
  e,
  \* @type: Int;
  k,
  \* @type: Int;
  nSamples,
  \* @type: Int;
  nTs,
  \* @type: Int;
  pos,
  \* @type: Int;
  lastRead

Init ==
  /\ nC \in Nat /\ nC >= 1 /\ nS \in Nat /\ nS >= 1 /\ nR \in Nat /\ nE \in Nat /\ nE >= 1
  /\ i \in Nat /\ i < nC /\ s \in Nat /\ s < nS /\ r \in Nat /\ r < nR /\ n \in 0..5 /\ e \in Nat /\ e < nE
  /\ nSamples \in Nat /\ k \in Nat /\ k < nSamples
  /\ nTs \in Nat /\ pos = 0 /\ lastRead = -1

\* SampleOnTSample: "pos < n && t >= ts[pos]" - the read happens only after the bound test
ReadTS ==
  /\ pos < nTs
  /\ lastRead' = pos
  /\ pos' = pos + 1
  /\ UNCHANGED <<nC, nS, nR, nE, i, s, r, n, e, k, nSamples, nTs>>

Next == ReadTS

In(ix, len) == ix >= 0 /\ ix < len

OffsetsSafe ==
  /\ In(i * nS + s, nC * nS)                          \* mesh_x
  /\ In(i * 6 + n, nC * 6)                            \* mesh_neighbors
  /\ In(i * nS * 6 + s * 6 + n, nS * nC * 6)          \* mesh_kd
  /\ In(i * nR + r, nC * nR)                          \* mesh_kr
  /\ In(e * nR + r, nE * nR)                          \* k
  /\ In(s * nR + r, nS * nR)                          \* sub / sto
  /\ In(s * nE + e, nS * nE)                          \* D
  /\ In(k * nC * nS + s * nC + i, nSamples * nC * nS) \* trajectory data

CursorInv ==
  /\ pos >= 0 /\ pos <= nTs
  /\ lastRead < nTs /\ lastRead >= -1

Frame ==
  /\ nC >= 1 /\ nS >= 1 /\ nR >= 0 /\ nE >= 1 /\ i >= 0 /\ i < nC /\ s >= 0 /\ s < nS /\ r >= 0 /\ r < nR
  /\ n >= 0 /\ n <= 5 /\ e >= 0 /\ e < nE /\ nSamples >= 0 /\ k >= 0 /\ k < nSamples /\ nTs >= 0

IndInv == Frame /\ CursorInv
IndInit ==
  /\ nC \in Int /\ nS \in Int /\ nR \in Int /\ nE \in Int /\ i \in Int /\ s \in Int /\ r \in Int /\ n \in Int /\ e \in Int
  /\ k \in Int /\ nSamples \in Int /\ nTs \in Int /\ pos \in Int /\ lastRead \in Int
  /\ IndInv
Safe == OffsetsSafe /\ CursorInv
=============================================================================
