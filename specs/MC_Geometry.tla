----------------------------- MODULE MC_Geometry -----------------------------
(* C15 on the model: for every grid shape up to MaxSide per axis and every mix of     *)
(* reflecting / periodic axes, the three descriptions of the neighbour structure      *)
(* agree (with multiplicity), the relation is symmetric, index and coordinates are      *)
(* in bijection, and the graph a grid converts to has exactly the grid's adjacency.     *)
EXTENDS Geometry, Json, TLC

CONSTANTS MaxSide, Emit
VARIABLES w, h, d, bc
gv == <<w, h, d, bc>>
GInit == w \in 1..MaxSide /\ h \in 1..MaxSide /\ d \in 1..MaxSide /\ bc \in [1..3 -> BOOLEAN]
GNext == FALSE /\ UNCHANGED gv
GSpec == GInit /\ [][GNext]_gv

C == Cells(w, h, d)
Nb(i) == EngineNbrSeq(w, h, d, bc, i)
Bijection == /\ \A i \in C : Idx(w, h, CX(w, h, i), CY(w, h, i), CZ(w, h, i)) = i /\ InBoundsXYZ(w, h, d, CX(w, h, i), CY(w, h, i), CZ(w, h, i))
             /\ \A x \in 0..(w - 1), y \in 0..(h - 1), z \in 0..(d - 1) :
                   LET i == Idx(w, h, x, y, z) IN i \in C /\ CX(w, h, i) = x /\ CY(w, h, i) = y /\ CZ(w, h, i) = z
SameLists == \A i \in C : \A j \in C : Count(Nb(i), j) = Count(NeighborList(w, h, d, bc, i), j)
Symmetric == \A i \in C : \A j \in C : Count(Nb(i), j) = Count(Nb(j), i)
PairTest  == \A i \in C : \A j \in C : i # j => (AreNeighbors(w, h, d, bc, i, j) <=> Count(Nb(i), j) > 0)
Degree    == \A i \in C : Len(Nb(i)) <= 6 /\ \A k \in 1..Len(Nb(i)) : Nb(i)[k] \in C
GraphSame == LET es == GridGraphEdges(w, h, d, bc) IN
             \A i \in C : \A j \in C : Count(EdgeNbrSeq(es, i), j) = Count(Nb(i), j)
(* axes of length 1 and 2: a periodic axis of length 1 makes a cell its own neighbour twice, length 2 a double edge *)
ShortAxes == \A i \in C :
               /\ (bc[1] /\ w = 1) => Count(Nb(i), i) >= 2
               /\ (bc[1] /\ w = 2) => Count(Nb(i), Idx(w, h, 1 - CX(w, h, i), CY(w, h, i), CZ(w, h, i))) = 2
               /\ (~bc[1] /\ ~bc[2] /\ ~bc[3]) => Count(Nb(i), i) = 0

Emitted == Emit => PrintT(<<"PROGRAM", ToJson([w |-> w, h |-> h, d |-> d, bc |-> bc,
                     nbr |-> [c \in 1..(w * h * d) |-> Nb(c - 1)],
                     pair |-> [c \in 1..(w * h * d) |-> [e \in 1..(w * h * d) |-> AreNeighbors(w, h, d, bc, c - 1, e - 1)]],
                     edges |-> GridGraphEdges(w, h, d, bc)])>>)
=============================================================================
