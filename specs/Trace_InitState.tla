--------------------------- MODULE Trace_InitState ---------------------------
(* Observed initial states of real runs (sample 0) must be terminal states of InitState   *)
(* for the real-valued input of that species: redist -> Post, Poisson -> PoissonPost.     *)
EXTENDS Integers, Sequences, Json, IOUtils, TLC
Cases == JsonDeserialize(IOEnv.TRACE_FILE)
VARIABLE ci
RECURSIVE SumS(_)
SumS(s) == IF s = <<>> THEN 0 ELSE Head(s) + SumS(Tail(s))
Post(c) == /\ \A i \in 1..Len(c.sto) : c.sto[i] >= 0
           /\ Len(c.sto) = Len(c.x4)
           /\ c.integral
           /\ (c.mode = "redist" => SumS(c.sto) = SumS(c.x4) \div 4)
           /\ \A i \in 1..Len(c.x4) : c.x4[i] = 0 => c.sto[i] = 0
TInit == ci \in 1..Len(Cases) /\ Post(Cases[ci])
TNext == FALSE /\ UNCHANGED ci
TSpec == TInit /\ [][TNext]_ci
Accepted == PrintT(<<"ACCEPTED", Cases[ci].id>>)
=============================================================================
