SPECIFICATION TSpec
INVARIANT Progress
INVARIANT InvNonNeg
INVARIANT InvConserved
INVARIANT InvChemostat
INVARIANT InvDeath
INVARIANT InvTimeIncreasing
INVARIANT InvIntegral
