SPECIFICATION MSpec
CONSTANTS
  Emit = FALSE
  Choices = {"absent", "inherit", "default", "S1", "S2"}
INVARIANT RuleIsNearest
INVARIANT ExplicitWins
INVARIANT ChildInherits
