SPECIFICATION TraceSpecChecked
CONSTANTS
  Objects = {"e1", "e2"}
  Sharing = "perObject"
  Deltas = {2}
INVARIANT Accepted
