
