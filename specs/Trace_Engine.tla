---------------------------- MODULE Trace_Engine ----------------------------
(* Trace validation: every recorded history of LibRDEngine calls on the real   *)
(* engine must be a behaviour of Engine.  One JSON file holds many histories;   *)
(* each is validated independently (tid), one state per logged call.            *)
(*                                                                              *)
(* Event fields (written by harness/engine_rec.py after each call returns):     *)
(*   call, obj            the method and the engine object                      *)
(*   cfg                  (setup) the abstract configuration handed to the engine *)
(*   k                    (iterate_n) the requested number of iterations         *)
(*   ret                  return value (iterate / iterate_n / run / is_complete) *)
(*   ns, t                engineexport_get_nsamples / get_time right after the call *)
(*   pnum                 (get_progress) progress mapped back to a time          *)
(*   recT, recN, dataok   (get_output) sampled times, the step each record's     *)
(*                        data belongs to, and whether data and shape matched    *)
EXTENDS Engine, Json, IOUtils

Traces == JsonDeserialize(IOEnv.TRACE_FILE)

VARIABLES tid, l
tvars == <<vars, tid, l>>

Ev == Traces[tid].ev[l]

Common(e) == /\ obs'.call = e.call /\ obs'.obj = e.obj
Seen(e)   == /\ obs'.ns = e.ns /\ obs'.t = e.t

(* the recorder replaces the kind by a description of what is wrong when the set-up itself is inconsistent (the doubles  *)
(* handed to the engine differ from the script's, the caller's script was modified, the default t_max is not the last     *)
(* requested time, ...): such a set-up is not a behaviour of Engine                                                        *)
KnownKind(c) == c.kind \in {"fixed", "gill"}

RunCands(e) ==      \* run(ms): the number of iterations is bounded by the step the engine reports
  LET dn == (e.t - alg[Own(e.obj)].t) \div 2 IN {IF dn < 1 THEN 1 ELSE dn, dn + 1}

TraceStep(e) ==
  \/ /\ e.call = "setup"       /\ KnownKind(e.cfg) /\ Setup(e.obj, e.cfg) /\ Common(e) /\ Seen(e)
  \/ /\ e.call = "iterate"     /\ Iterate(e.obj) /\ Common(e) /\ Seen(e) /\ obs'.ret = e.ret
  \/ /\ e.call = "iterate_n"   /\ IterateN(e.obj, e.k) /\ Common(e) /\ Seen(e) /\ obs'.ret = e.ret
  \/ /\ e.call = "run"         /\ Run(e.obj, RunCands(e)) /\ Common(e) /\ Seen(e) /\ obs'.ret = e.ret
  \/ /\ e.call = "sample"      /\ SampleCall(e.obj) /\ Common(e) /\ Seen(e)
  \/ /\ e.call = "get_progress" /\ GetProgress(e.obj) /\ Common(e) /\ Seen(e) /\ obs'.pnum = e.pnum
  \/ /\ e.call = "is_complete" /\ IsComplete(e.obj) /\ Common(e) /\ obs'.ret = e.ret
  \/ /\ e.call = "get_output"  /\ GetOutput(e.obj) /\ Common(e) /\ Seen(e)
     /\ obs'.recT = e.recT /\ obs'.recN = e.recN /\ e.dataok
  \/ /\ e.call = "finalize"    /\ Finalize(e.obj) /\ Common(e)
  \/ /\ e.call = "drop"        /\ Drop(e.obj) /\ Common(e)
  \/ /\ e.call = "caller_edits" /\ CallerEdits(e.obj) /\ Common(e) /\ Seen(e)
  \/ /\ e.call \notin {"setup", "finalize", "is_complete", "drop"} /\ Undefined(e.obj)   \* global sharing only
  \/ /\ undef /\ UNCHANGED vars                                               \* after undefined behaviour anything goes

TraceInit == Init /\ tid \in 1..Len(Traces) /\ l = 1

TraceNext ==
  /\ l <= Len(Traces[tid].ev)
  /\ TraceStep(Ev)
  /\ l' = l + 1 /\ tid' = tid

TraceSpec == TraceInit /\ [][TraceNext]_tvars

(* batch mode: the contract clauses are part of the step, so a history that breaks one is simply *)
(* not accepted (and the other histories of the batch are still examined); the Diag         *)
(* configurations run TraceSpec with the clauses as INVARIANT / PROPERTY to name the one.   *)
TraceNextChecked == TraceNext /\ (undef' \/ (AllInv' /\ AllAct))
TraceSpecChecked == TraceInit /\ [][TraceNextChecked]_tvars

(* Reports; the harness reads them from TLC's output.  *)
Accepted == (l = Len(Traces[tid].ev) + 1) => PrintT(<<"ACCEPTED", Traces[tid].id>>)
Progress == PrintT(<<"REACHED", Traces[tid].id, l>>)
=============================================================================
