------------------------------- MODULE MC_Conv -------------------------------
(* C06 on the model: conversion factors form a group action.  Factorised per base   *)
(* kind so that ALL triples of units x exponents -4..4 are covered:                   *)
(* 11^3 + 10^3 + 10^3 triples x 9 exponents.                                          *)
EXTENDS SIMonomial, FiniteSets, TLC

VARIABLES kind, a, b, c, e, n
cv == <<kind, a, b, c, e, n>>

UnitsOf(k) == CASE k = "space" -> SpaceUnits [] k = "time" -> TimeUnits [] k = "quantity" -> QtyUnits
Sc(k, u)   == CASE k = "space" -> SpaceScale(u) [] k = "time" -> TimeScale(u) [] k = "quantity" -> QtyScale(u)
F(k, src, dst, ex) == MDiv(MPow(Sc(k, src), ex), MPow(Sc(k, dst), ex))

CInit == /\ kind \in {"space", "time", "quantity"} /\ e \in -4..4 /\ n = 0
         /\ a = UnitsOf(kind)[1] /\ b = a /\ c = a
CNext == /\ n = 0 /\ n' = 1 /\ UNCHANGED <<kind, e>>
         /\ \E i, j, l \in 1..Len(UnitsOf(kind)) : a' = UnitsOf(kind)[i] /\ b' = UnitsOf(kind)[j] /\ c' = UnitsOf(kind)[l]
CSpec == CInit /\ [][CNext]_cv

Identity    == F(kind, a, a, e) = MOne
Inverse     == MMul(F(kind, a, b, e), F(kind, b, a, e)) = MOne
Composition == MMul(F(kind, a, b, e), F(kind, b, c, e)) = F(kind, a, c, e)
PowerLaw    == F(kind, a, b, e) = MPow(F(kind, a, b, 1), e)
(* the full conversion is the product of the three per-kind factors *)
Sys3 == <<a, b, c>>
Factorises  == (kind = "space") =>
                 \A t1, t2 \in {"s", "h"}, q1, q2 \in {"molecule", "µmol"} :
                    Conv(<<a, t1, q1>>, <<b, t2, q2>>, <<e, 1, -1>>)
                      = MMul(MMul(F("space", a, b, e), F("time", t1, t2, 1)), F("quantity", q1, q2, -1))
(* litre = dm^3 family, molar = mol/L family, stated through the base units they expand to *)
ASSUME LitreIsCubic == /\ LitreScale("kL") = MPow(SpaceScale("m"), 3)   /\ LitreScale("L") = MPow(SpaceScale("dm"), 3)
                /\ LitreScale("mL") = MPow(SpaceScale("cm"), 3)  /\ LitreScale("µL") = MPow(SpaceScale("mm"), 3)
                /\ LitreScale("nL") = MPow(SpaceScale("dmm"), 3) /\ LitreScale("pL") = MPow(SpaceScale("cmm"), 3)
                /\ LitreScale("fL") = MPow(SpaceScale("µm"), 3)
ASSUME MolarIsMolPerLitre ==
  \A i \in 1..9 : MolarScale(DensityUnits[i]) = MDiv(QtyScale(QtyUnits[i]), LitreScale("L"))
ASSUME PrefixTable == /\ \A i \in 1..9 : QtyScale(QtyUnits[i]) = MMul(QtyScale("mol"), Mono(1, 1, Prefix10(<<"k","","d","c","m","µ","n","p","f">>[i]), 0, 0))
               /\ TimeScale("min") = Mono(1, 1, 1, 1, 0)              \* 60 s = 6 * 10
               /\ TimeScale("h") = MPow(TimeScale("min"), 2)          \* 3600 s
=============================================================================
