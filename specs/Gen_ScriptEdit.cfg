SPECIFICATION GenSpec
CONSTANTS
  TUnits <- MCTUnits
  Vals <- MCVals
  Lists <- MCLists
  Depth = 7
  Emit = TRUE
INVARIANT TypeOK
INVARIANT DefaultFollowsSamples
INVARIANT Emitted
PROPERTY ExplicitStays
PROPERTY UnitsChangeKeepsMeaning
PROPERTY OneQuantityPerSetter
