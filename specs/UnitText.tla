------------------------------ MODULE UnitText ------------------------------
(* Unit text (C18).  A text is a sequence of one-character strings.             *)
(*   PrintUnits  Units.__str__                                                   *)
(*   Machine     the character machine of parse_units (u-for-micro substitution,  *)
(*               blocks [separator, name, exponent text], '/' negates, litre and  *)
(*               molar expansion, one unit per base kind), with exponents read    *)
(*               strictly as ['-'] digit+                                        *)
(*   Meaning     the documented grammar  expr ::= factor (('.'|'/') factor)* ,    *)
(*               factor ::= symbol [['-'] digit+] , as a function of the factor   *)
(*               list - the SI reading of the expression                          *)
(*   Recognise   membership of a text in that grammar                             *)
(* A parse result is [ok, sp, ti, qu, dim] (base unit names, "" when the kind     *)
(* does not occur, and the exponent triple).                                      *)
EXTENDS Integers, Sequences, FiniteSets, TLC

SymTab == <<
  [name |-> "km", chars |-> <<"k", "m">>, kind |-> "space", sp |-> "km", spe |-> 1, qu |-> "", que |-> 0, ti |-> "", tie |-> 0],
  [name |-> "m", chars |-> <<"m">>, kind |-> "space", sp |-> "m", spe |-> 1, qu |-> "", que |-> 0, ti |-> "", tie |-> 0],
  [name |-> "dm", chars |-> <<"d", "m">>, kind |-> "space", sp |-> "dm", spe |-> 1, qu |-> "", que |-> 0, ti |-> "", tie |-> 0],
  [name |-> "cm", chars |-> <<"c", "m">>, kind |-> "space", sp |-> "cm", spe |-> 1, qu |-> "", que |-> 0, ti |-> "", tie |-> 0],
  [name |-> "mm", chars |-> <<"m", "m">>, kind |-> "space", sp |-> "mm", spe |-> 1, qu |-> "", que |-> 0, ti |-> "", tie |-> 0],
  [name |-> "dmm", chars |-> <<"d", "m", "m">>, kind |-> "space", sp |-> "dmm", spe |-> 1, qu |-> "", que |-> 0, ti |-> "", tie |-> 0],
  [name |-> "cmm", chars |-> <<"c", "m", "m">>, kind |-> "space", sp |-> "cmm", spe |-> 1, qu |-> "", que |-> 0, ti |-> "", tie |-> 0],
  [name |-> "µm", chars |-> <<"µ", "m">>, kind |-> "space", sp |-> "µm", spe |-> 1, qu |-> "", que |-> 0, ti |-> "", tie |-> 0],
  [name |-> "nm", chars |-> <<"n", "m">>, kind |-> "space", sp |-> "nm", spe |-> 1, qu |-> "", que |-> 0, ti |-> "", tie |-> 0],
  [name |-> "pm", chars |-> <<"p", "m">>, kind |-> "space", sp |-> "pm", spe |-> 1, qu |-> "", que |-> 0, ti |-> "", tie |-> 0],
  [name |-> "fm", chars |-> <<"f", "m">>, kind |-> "space", sp |-> "fm", spe |-> 1, qu |-> "", que |-> 0, ti |-> "", tie |-> 0],
  [name |-> "h", chars |-> <<"h">>, kind |-> "time", sp |-> "", spe |-> 0, qu |-> "", que |-> 0, ti |-> "h", tie |-> 1],
  [name |-> "min", chars |-> <<"m", "i", "n">>, kind |-> "time", sp |-> "", spe |-> 0, qu |-> "", que |-> 0, ti |-> "min", tie |-> 1],
  [name |-> "s", chars |-> <<"s">>, kind |-> "time", sp |-> "", spe |-> 0, qu |-> "", que |-> 0, ti |-> "s", tie |-> 1],
  [name |-> "ds", chars |-> <<"d", "s">>, kind |-> "time", sp |-> "", spe |-> 0, qu |-> "", que |-> 0, ti |-> "ds", tie |-> 1],
  [name |-> "cs", chars |-> <<"c", "s">>, kind |-> "time", sp |-> "", spe |-> 0, qu |-> "", que |-> 0, ti |-> "cs", tie |-> 1],
  [name |-> "ms", chars |-> <<"m", "s">>, kind |-> "time", sp |-> "", spe |-> 0, qu |-> "", que |-> 0, ti |-> "ms", tie |-> 1],
  [name |-> "µs", chars |-> <<"µ", "s">>, kind |-> "time", sp |-> "", spe |-> 0, qu |-> "", que |-> 0, ti |-> "µs", tie |-> 1],
  [name |-> "ns", chars |-> <<"n", "s">>, kind |-> "time", sp |-> "", spe |-> 0, qu |-> "", que |-> 0, ti |-> "ns", tie |-> 1],
  [name |-> "ps", chars |-> <<"p", "s">>, kind |-> "time", sp |-> "", spe |-> 0, qu |-> "", que |-> 0, ti |-> "ps", tie |-> 1],
  [name |-> "fs", chars |-> <<"f", "s">>, kind |-> "time", sp |-> "", spe |-> 0, qu |-> "", que |-> 0, ti |-> "fs", tie |-> 1],
  [name |-> "kmol", chars |-> <<"k", "m", "o", "l">>, kind |-> "quantity", sp |-> "", spe |-> 0, qu |-> "kmol", que |-> 1, ti |-> "", tie |-> 0],
  [name |-> "mol", chars |-> <<"m", "o", "l">>, kind |-> "quantity", sp |-> "", spe |-> 0, qu |-> "mol", que |-> 1, ti |-> "", tie |-> 0],
  [name |-> "dmol", chars |-> <<"d", "m", "o", "l">>, kind |-> "quantity", sp |-> "", spe |-> 0, qu |-> "dmol", que |-> 1, ti |-> "", tie |-> 0],
  [name |-> "cmol", chars |-> <<"c", "m", "o", "l">>, kind |-> "quantity", sp |-> "", spe |-> 0, qu |-> "cmol", que |-> 1, ti |-> "", tie |-> 0],
  [name |-> "mmol", chars |-> <<"m", "m", "o", "l">>, kind |-> "quantity", sp |-> "", spe |-> 0, qu |-> "mmol", que |-> 1, ti |-> "", tie |-> 0],
  [name |-> "µmol", chars |-> <<"µ", "m", "o", "l">>, kind |-> "quantity", sp |-> "", spe |-> 0, qu |-> "µmol", que |-> 1, ti |-> "", tie |-> 0],
  [name |-> "nmol", chars |-> <<"n", "m", "o", "l">>, kind |-> "quantity", sp |-> "", spe |-> 0, qu |-> "nmol", que |-> 1, ti |-> "", tie |-> 0],
  [name |-> "pmol", chars |-> <<"p", "m", "o", "l">>, kind |-> "quantity", sp |-> "", spe |-> 0, qu |-> "pmol", que |-> 1, ti |-> "", tie |-> 0],
  [name |-> "fmol", chars |-> <<"f", "m", "o", "l">>, kind |-> "quantity", sp |-> "", spe |-> 0, qu |-> "fmol", que |-> 1, ti |-> "", tie |-> 0],
  [name |-> "molecule", chars |-> <<"m", "o", "l", "e", "c", "u", "l", "e">>, kind |-> "quantity", sp |-> "", spe |-> 0, qu |-> "molecule", que |-> 1, ti |-> "", tie |-> 0],
  [name |-> "kL", chars |-> <<"k", "L">>, kind |-> "volume", sp |-> "m", spe |-> 3, qu |-> "", que |-> 0, ti |-> "", tie |-> 0],
  [name |-> "L", chars |-> <<"L">>, kind |-> "volume", sp |-> "dm", spe |-> 3, qu |-> "", que |-> 0, ti |-> "", tie |-> 0],
  [name |-> "mL", chars |-> <<"m", "L">>, kind |-> "volume", sp |-> "cm", spe |-> 3, qu |-> "", que |-> 0, ti |-> "", tie |-> 0],
  [name |-> "µL", chars |-> <<"µ", "L">>, kind |-> "volume", sp |-> "mm", spe |-> 3, qu |-> "", que |-> 0, ti |-> "", tie |-> 0],
  [name |-> "nL", chars |-> <<"n", "L">>, kind |-> "volume", sp |-> "dmm", spe |-> 3, qu |-> "", que |-> 0, ti |-> "", tie |-> 0],
  [name |-> "pL", chars |-> <<"p", "L">>, kind |-> "volume", sp |-> "cmm", spe |-> 3, qu |-> "", que |-> 0, ti |-> "", tie |-> 0],
  [name |-> "fL", chars |-> <<"f", "L">>, kind |-> "volume", sp |-> "µm", spe |-> 3, qu |-> "", que |-> 0, ti |-> "", tie |-> 0],
  [name |-> "kM", chars |-> <<"k", "M">>, kind |-> "density", sp |-> "dm", spe |-> -3, qu |-> "kmol", que |-> 1, ti |-> "", tie |-> 0],
  [name |-> "M", chars |-> <<"M">>, kind |-> "density", sp |-> "dm", spe |-> -3, qu |-> "mol", que |-> 1, ti |-> "", tie |-> 0],
  [name |-> "dM", chars |-> <<"d", "M">>, kind |-> "density", sp |-> "dm", spe |-> -3, qu |-> "dmol", que |-> 1, ti |-> "", tie |-> 0],
  [name |-> "cM", chars |-> <<"c", "M">>, kind |-> "density", sp |-> "dm", spe |-> -3, qu |-> "cmol", que |-> 1, ti |-> "", tie |-> 0],
  [name |-> "mM", chars |-> <<"m", "M">>, kind |-> "density", sp |-> "dm", spe |-> -3, qu |-> "mmol", que |-> 1, ti |-> "", tie |-> 0],
  [name |-> "µM", chars |-> <<"µ", "M">>, kind |-> "density", sp |-> "dm", spe |-> -3, qu |-> "µmol", que |-> 1, ti |-> "", tie |-> 0],
  [name |-> "nM", chars |-> <<"n", "M">>, kind |-> "density", sp |-> "dm", spe |-> -3, qu |-> "nmol", que |-> 1, ti |-> "", tie |-> 0],
  [name |-> "pM", chars |-> <<"p", "M">>, kind |-> "density", sp |-> "dm", spe |-> -3, qu |-> "pmol", que |-> 1, ti |-> "", tie |-> 0],
  [name |-> "fM", chars |-> <<"f", "M">>, kind |-> "density", sp |-> "dm", spe |-> -3, qu |-> "fmol", que |-> 1, ti |-> "", tie |-> 0]
>>


NSym == Len(SymTab)
Digits == <<"0", "1", "2", "3", "4", "5", "6", "7", "8", "9">>
IsDigit(c) == \E i \in 1..10 : Digits[i] = c
DigitVal(c) == (CHOOSE i \in 1..10 : Digits[i] = c) - 1
Fail == [ok |-> FALSE, sp |-> "", ti |-> "", qu |-> "", dim |-> <<0, 0, 0>>]

RECURSIVE Cat(_)
Cat(ss) == IF ss = <<>> THEN <<>> ELSE Head(ss) \o Cat(Tail(ss))

(* ---------------- printing -------------------------------------------------- *)
RECURSIVE NatChars(_)
NatChars(n) == IF n < 10 THEN <<Digits[n + 1]>> ELSE NatChars(n \div 10) \o <<Digits[(n % 10) + 1]>>
IntChars(n) == IF n < 0 THEN <<"-">> \o NatChars(-n) ELSE NatChars(n)
CharsOfSym(name) == (CHOOSE i \in 1..NSym : SymTab[i].name = name)
SymChars(name) == SymTab[CharsOfSym(name)].chars
FactorChars(name, e) == SymChars(name) \o (IF e = 1 THEN <<>> ELSE IntChars(e))
PrintUnits(sys, dim) ==        \* space, time, quantity; exponent 0 omitted; joined by "."
  LET fs == (IF dim[1] # 0 THEN <<FactorChars(sys[1], dim[1])>> ELSE <<>>)
         \o (IF dim[2] # 0 THEN <<FactorChars(sys[2], dim[2])>> ELSE <<>>)
         \o (IF dim[3] # 0 THEN <<FactorChars(sys[3], dim[3])>> ELSE <<>>)
  IN  IF fs = <<>> THEN <<>>
      ELSE Cat([i \in 1..Len(fs) |-> IF i = 1 THEN fs[i] ELSE <<".">> \o fs[i]])

(* ---------------- the grammar: factor lists and their meaning ------------------ *)
(* a factor is [sym (index in SymTab), e (exponent), hasE (written?), sep ("." | "/")] *)
AddUnit(acc, field, unit, e) ==      \* one unit per base kind; a second, different one is an error
  IF ~acc.ok THEN acc
  ELSE IF field = "sp" THEN (IF acc.sp = "" \/ acc.sp = unit THEN [acc EXCEPT !.sp = unit, !.dim[1] = @ + e] ELSE Fail)
  ELSE IF field = "ti" THEN (IF acc.ti = "" \/ acc.ti = unit THEN [acc EXCEPT !.ti = unit, !.dim[2] = @ + e] ELSE Fail)
  ELSE (IF acc.qu = "" \/ acc.qu = unit THEN [acc EXCEPT !.qu = unit, !.dim[3] = @ + e] ELSE Fail)
AddFactor(acc, f) ==
  LET s == SymTab[f.sym]
      e == IF f.sep = "/" THEN -f.e ELSE f.e
      a1 == IF s.spe # 0 THEN AddUnit(acc, "sp", s.sp, e * s.spe) ELSE acc
      a2 == IF s.tie # 0 THEN AddUnit(a1, "ti", s.ti, e * s.tie) ELSE a1
  IN  IF s.que # 0 THEN AddUnit(a2, "qu", s.qu, e * s.que) ELSE a2
RECURSIVE MeaningFrom(_, _)
MeaningFrom(acc, fs) == IF fs = <<>> THEN acc ELSE MeaningFrom(AddFactor(acc, Head(fs)), Tail(fs))
Meaning(fs) == MeaningFrom([ok |-> TRUE, sp |-> "", ti |-> "", qu |-> "", dim |-> <<0, 0, 0>>], fs)
Render(fs, micro) ==       \* the text of a factor list; micro = "µ" or "u" (accepted alternative spelling)
  Cat([i \in 1..Len(fs) |->
     (IF i = 1 THEN <<>> ELSE <<fs[i].sep>>)
     \o [k \in 1..Len(SymTab[fs[i].sym].chars) |-> IF SymTab[fs[i].sym].chars[k] = "µ" THEN micro ELSE SymTab[fs[i].sym].chars[k]]
     \o (IF fs[i].hasE THEN IntChars(fs[i].e) ELSE <<>>)])

(* ---------------- the character machine of parse_units ---------------------------- *)
RECURSIVE Subst(_)
Subst(t) ==       \* um, us, umol, uL, uM -> micro (plain substring replacement, left to right)
  IF t = <<>> THEN <<>>
  ELSE IF Len(t) >= 2 /\ t[1] = "u" /\ t[2] \in {"m", "s", "L", "M"} THEN <<"µ">> \o Subst(Tail(t))
  ELSE <<Head(t)>> \o Subst(Tail(t))
RECURSIVE LStrip(_)
LStrip(t) == IF t # <<>> /\ Head(t) = " " THEN LStrip(Tail(t)) ELSE t
RECURSIVE RStrip(_)
RStrip(t) == IF t # <<>> /\ t[Len(t)] = " " THEN RStrip(SubSeq(t, 1, Len(t) - 1)) ELSE t
Strip(t) == RStrip(LStrip(t))

(* blocks: <<sep, name chars, exponent chars>>; a '-' or digit switches to the exponent text until the next separator *)
RECURSIVE Blocks(_, _, _)
Blocks(t, cur, exp) ==
  IF t = <<>> THEN <<cur>>
  ELSE LET c == Head(t) IN
       IF c = "." \/ c = "/" THEN <<cur>> \o Blocks(Tail(t), <<c, <<>>, <<>>>>, FALSE)
       ELSE LET ex == exp \/ c = "-" \/ IsDigit(c)
            IN  IF ex THEN Blocks(Tail(t), <<cur[1], cur[2], Append(cur[3], c)>>, TRUE)
                ELSE Blocks(Tail(t), <<cur[1], Append(cur[2], c), cur[3]>>, FALSE)
RECURSIVE NatOf(_)
NatOf(ds) == IF ds = <<>> THEN 0 ELSE NatOf(SubSeq(ds, 1, Len(ds) - 1)) * 10 + DigitVal(ds[Len(ds)])
StrictInt(ds) ==          \* ['-'] digit+  -> [ok, v]
  LET neg == ds # <<>> /\ ds[1] = "-"
      body == IF neg THEN Tail(ds) ELSE ds
  IN  IF body = <<>> \/ \E i \in 1..Len(body) : ~IsDigit(body[i]) THEN [ok |-> FALSE, v |-> 0]
      ELSE [ok |-> TRUE, v |-> IF neg THEN -NatOf(body) ELSE NatOf(body)]
SymIndex(name) == IF \E i \in 1..NSym : SymTab[i].chars = name THEN CHOOSE i \in 1..NSym : SymTab[i].chars = name ELSE 0
BlockFactor(b) ==         \* [ok, f]
  LET i == SymIndex(b[2])
      ev == IF b[3] = <<>> THEN [ok |-> TRUE, v |-> 1] ELSE StrictInt(b[3])
  IN  [ok |-> i # 0 /\ ev.ok, f |-> [sym |-> i, e |-> ev.v, hasE |-> b[3] # <<>>, sep |-> b[1]]]
Machine(text) ==
  LET t == Strip(Subst(text))
  IN  IF t = <<>> THEN [ok |-> TRUE, sp |-> "", ti |-> "", qu |-> "", dim |-> <<0, 0, 0>>]
      ELSE LET bs == Blocks(t, <<".", <<>>, <<>>>>, FALSE)
               fs == [i \in 1..Len(bs) |-> BlockFactor(bs[i])]
           IN  IF \E i \in 1..Len(fs) : ~fs[i].ok THEN Fail
               ELSE Meaning([i \in 1..Len(fs) |-> fs[i].f])

(* ---------------- membership in the documented grammar ------------------------------- *)
RECURSIVE SplitSeps(_, _)
SplitSeps(t, cur) == IF t = <<>> THEN <<cur>>
                     ELSE IF Head(t) = "." \/ Head(t) = "/" THEN <<cur>> \o SplitSeps(Tail(t), <<>>)
                     ELSE SplitSeps(Tail(t), Append(cur, Head(t)))
IsFactorText(p) ==       \* symbol followed by nothing or ['-'] digit+
  \E i \in 1..NSym :
     LET s == SymTab[i].chars IN
     /\ Len(p) >= Len(s) /\ SubSeq(p, 1, Len(s)) = s
     /\ LET r == SubSeq(p, Len(s) + 1, Len(p)) IN r = <<>> \/ StrictInt(r).ok
Recognise(text) ==
  LET t == Strip(Subst(text)) IN
  t = <<>> \/ (LET ps == SplitSeps(t, <<>>) IN \A i \in 1..Len(ps) : IsFactorText(ps[i]))

(* same physical unit: exponents equal, base unit equal wherever the exponent is non-zero *)
SameUnits(a, b) == /\ a.ok = b.ok
                   /\ a.ok => /\ a.dim = b.dim
                              /\ (a.dim[1] # 0 => a.sp = b.sp) /\ (a.dim[2] # 0 => a.ti = b.ti) /\ (a.dim[3] # 0 => a.qu = b.qu)
=============================================================================
