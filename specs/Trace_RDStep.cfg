SPECIFICATION TSpecChecked
INVARIANT Accepted
