------------------------------- MODULE RDModel -------------------------------
(* One reaction-diffusion configuration and the quantities every engine and    *)
(* the kinetics functions derive from it (C01, C02, C03, C07).                  *)
(*                                                                              *)
(* c.nC, c.nS, c.nR     cells, species, irreversible reactions (a reversible    *)
(*                      reaction of the network is two of these, fwd then rev)  *)
(* c.sub[r][s]          reactant coefficient of species s in reaction r         *)
(* c.sto[r][s]          net change of s when r fires once (products - reactants)*)
(* c.env[i]             environment of cell i                                   *)
(* c.k[e][r], c.D[s][e] rate constant / diffusion coefficient per environment   *)
(*                      (after the 'default' fallback), exact rationals         *)
(* c.h[i]               edge length of cell i (volume = h^3; integers so that    *)
(*                      the cube root is exact)                                 *)
(* c.nbr[i]             directed neighbour entries of cell i WITH multiplicity:  *)
(*                      [j, sfc, dst] (contact surface, centre distance)         *)
(* c.chs[i][s]          chemostat flag of that very species in that very cell    *)
EXTENDS Rat, FiniteSets, Geometry

CellsOf(c)   == 1..c.nC
SpeciesOf(c) == 1..c.nS
ReacsOf(c)   == 1..c.nR

RECURSIVE SumTo(_, _)
SumTo(f, n) == IF n = 0 THEN 0 ELSE f[n] + SumTo(f, n - 1)          \* integers
RECURSIVE RSumTo(_, _)
RSumTo(f, n) == IF n = 0 THEN Zero ELSE RAdd(f[n], RSumTo(f, n - 1))  \* rationals
RECURSIVE RProdTo(_, _)
RProdTo(f, n) == IF n = 0 THEN One ELSE RMul(f[n], RProdTo(f, n - 1))

Order(c, r)  == SumTo(c.sub[r], c.nS)
Vol(c, i)    == R(c.h[i] * c.h[i] * c.h[i])
Kc(c, i, r)  == c.k[c.env[i]][r]
Dc(c, s, i)  == c.D[s][c.env[i]]

(* ---- engine-shaped tables (Build_mesh_kr / Build_mesh_kd) ------------------ *)
MeshKr(c, i, r) == RMul(Kc(c, i, r), RPow(Vol(c, i), 1 - Order(c, r)))

Dij(c, s, i, j) ==             \* size-weighted harmonic mean; zero if either side is zero
  IF RIsZero(Dc(c, s, i)) \/ RIsZero(Dc(c, s, j)) THEN Zero
  ELSE RDiv(R(c.h[i] + c.h[j]), RAdd(RDiv(R(c.h[i]), Dc(c, s, i)), RDiv(R(c.h[j]), Dc(c, s, j))))

KdOut(c, i, s, n) == LET e == c.nbr[i][n] IN RDiv(RMul(Dij(c, s, i, e.j), e.sfc), RMul(Vol(c, i), e.dst))
KdIn(c, i, s, n)  == LET e == c.nbr[i][n] IN RDiv(RMul(Dij(c, s, i, e.j), e.sfc), RMul(Vol(c, e.j), e.dst))

(* ---- stochastic propensities (ReactionProp / DiffusionProp) ----------------- *)
RECURSIVE FF(_, _)
FF(x, q) == IF q = 0 THEN 1 ELSE (x - (q - 1)) * FF(x, q - 1)       \* x (x-1) ... (x-q+1)

Enough(c, x, i, r) == \A s \in SpeciesOf(c) : x[i][s] >= c.sub[r][s]
Prop(c, x, i, r) ==
  IF Enough(c, x, i, r)
  THEN RMul(MeshKr(c, i, r), RProdTo([s \in SpeciesOf(c) |-> R(FF(x[i][s], c.sub[r][s]))], c.nS))
  ELSE Zero
DiffProp(c, x, i, s, n) == RMul(R(x[i][s]), KdOut(c, i, s, n))

(* ---- deterministic rate law ---------------------------------------------------*)
(* engine shape: mesh_kr * prod x^sub ; diffusion in - out per neighbour entry       *)
ReactionRate(c, x, i, r) ==
  RMul(MeshKr(c, i, r), RProdTo([s \in SpeciesOf(c) |-> RPow(x[i][s], c.sub[r][s])], c.nS))
FEngine(c, x, i, s, chem) ==
  IF chem /\ c.chs[i][s] THEN Zero
  ELSE RAdd(RSumTo([r \in ReacsOf(c) |-> RMul(R(c.sto[r][s]), ReactionRate(c, x, i, r))], c.nR),
            RSumTo([n \in 1..Len(c.nbr[i]) |->
                      RSub(RMul(x[c.nbr[i][n].j][s], KdIn(c, i, s, n)), RMul(x[i][s], KdOut(c, i, s, n)))],
                   Len(c.nbr[i])))
(* declarative shape (the statement of C01): k * V * prod (x/V)^sub ; D_ij S /(d V_src) *)
MassAction(c, x, i, r) ==
  RMul(RMul(Kc(c, i, r), Vol(c, i)),
       RProdTo([s \in SpeciesOf(c) |-> RPow(RDiv(x[i][s], Vol(c, i)), c.sub[r][s])], c.nS))
FLaw(c, x, i, s, chem) ==
  IF chem /\ c.chs[i][s] THEN Zero
  ELSE RAdd(RSumTo([r \in ReacsOf(c) |-> RMul(R(c.sto[r][s]), MassAction(c, x, i, r))], c.nR),
            RSumTo([n \in 1..Len(c.nbr[i]) |->
                      LET e == c.nbr[i][n]
                          dd == Dij(c, s, i, e.j)
                      IN RSub(RDiv(RMul(RMul(x[e.j][s], dd), e.sfc), RMul(e.dst, Vol(c, e.j))),
                              RDiv(RMul(RMul(x[i][s], dd), e.sfc), RMul(e.dst, Vol(c, i))))],
                   Len(c.nbr[i])))

(* gross magnitude of the terms of F (for rounding tolerances on the implementation side) *)
FGross(c, x, i, s) ==
  RAdd(RSumTo([r \in ReacsOf(c) |-> RAbs(RMul(R(c.sto[r][s]), MassAction(c, x, i, r)))], c.nR),
       RSumTo([n \in 1..Len(c.nbr[i]) |->
                 RAdd(RAbs(RMul(x[c.nbr[i][n].j][s], KdIn(c, i, s, n))), RAbs(RMul(x[i][s], KdOut(c, i, s, n))))],
              Len(c.nbr[i])))

(* ---- conservation laws ---------------------------------------------------------*)
ChemostatedSomewhere(c, s) == \E i \in CellsOf(c) : c.chs[i][s]
LawRange == -2..2
ConsLaws(c) ==
  {v \in [SpeciesOf(c) -> LawRange] :
     /\ \E s \in SpeciesOf(c) : v[s] # 0
     /\ \A r \in ReacsOf(c) : SumTo([s \in SpeciesOf(c) |-> v[s] * c.sto[r][s]], c.nS) = 0
     /\ \A s \in SpeciesOf(c) : v[s] # 0 => ~ChemostatedSomewhere(c, s)}
Total(c, v, x) == SumTo([i \in CellsOf(c) |-> SumTo([s \in SpeciesOf(c) |-> v[s] * x[i][s]], c.nS)], c.nC)
RTotal(c, v, x) == RSumTo([i \in CellsOf(c) |-> RSumTo([s \in SpeciesOf(c) |-> RMul(R(v[s]), x[i][s])], c.nS)], c.nC)

(* ---- neighbour tables -------------------------------------------------------------*)
GridNbr(w, h, d, bc, hh) ==      \* what the grid engine uses: face area hh^2, distance hh
  [i \in 1..(w * h * d) |->
     LET s == EngineNbrSeq(w, h, d, bc, i - 1)
     IN  [n \in 1..Len(s) |-> [j |-> s[n] + 1, sfc |-> R(hh * hh), dst |-> R(hh)]]]
GraphNbr(nC, edges) ==           \* edges[e] = [i, j, sfc, dst] (0-based nodes), SetNeighbors order
  [i \in 1..nC |->
     SeqCat([e \in 1..Len(edges) |->
        (IF edges[e].i = i - 1 THEN <<[j |-> edges[e].j + 1, sfc |-> edges[e].sfc, dst |-> edges[e].dst]>> ELSE <<>>)
     \o (IF edges[e].j = i - 1 THEN <<[j |-> edges[e].i + 1, sfc |-> edges[e].sfc, dst |-> edges[e].dst]>> ELSE <<>>)])]
=============================================================================
