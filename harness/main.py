"""CLI:  ./check Cxx --tier quick|thorough [--replay FILE] [--selftest]   |   ./check --setup"""
import argparse
import importlib
import json
import os
import sys
import traceback

from .vlib import util
from .vlib.report import MachineryError


def main():
    ap = argparse.ArgumentParser()
    ap.add_argument("prop", nargs="?")
    ap.add_argument("--tier", default=os.environ.get("VERIF_TIER", "quick"), choices=["quick", "thorough"])
    ap.add_argument("--replay")
    ap.add_argument("--selftest", action="store_true")
    ap.add_argument("--setup", action="store_true")
    ap.add_argument("--only", help="comma-separated sub-check names (development aid)")
    a = ap.parse_args()
    if a.setup:
        from . import setup
        sys.exit(setup.run())
    if not a.prop:
        ap.error("property id required")
    name = a.prop.lower()
    try:
        mod = importlib.import_module("harness.checks." + name)
    except ModuleNotFoundError:
        print("no check for", a.prop)
        sys.exit(2)
    try:
        if a.replay:
            with open(a.replay) as f:
                rp = json.load(f)
            rc = mod.replay(rp)
        else:
            only = a.only.split(",") if a.only else None
            rc = mod.run(a.tier, selftest=a.selftest, only=only)
    except MachineryError as e:
        print("MACHINERY-FAILURE property=%s %s" % (a.prop, e))
        sys.exit(2)
    except Exception as e:
        traceback.print_exc()
        # An exception that was RAISED INSIDE the code under test, at a place where the check calls it with valid input and
        # expects a value (on the unchanged tree it returns one), is a verdict about that code - not a failure of the machinery.
        tb = traceback.extract_tb(e.__traceback__)
        from .vlib import util
        if tb and os.path.abspath(tb[-1].filename).startswith(os.path.abspath(util.REPO) + os.sep):
            d = os.path.join(util.REPLAYS, a.prop.upper())
            os.makedirs(d, exist_ok=True)
            p = os.path.join(d, "unguarded_exception.json")
            detail = {"property": a.prop.upper(), "signature": "exception-from-the-code-under-test:" + type(e).__name__,
                      "exception": repr(e)[:300], "raised_at": "%s:%d" % (tb[-1].filename, tb[-1].lineno),
                      "called_from": ["%s:%d" % (f.filename, f.lineno) for f in tb if "/harness/" in f.filename][-2:]}
            with open(p, "w") as f:
                json.dump(detail, f, indent=1)
            print("VIOLATION property=%s replay=%s" % (a.prop.upper(), p))
            print("  check=valid-call signature=%s" % detail["signature"])
            print("  " + json.dumps(detail)[:800])
            sys.exit(1)
        print("MACHINERY-FAILURE property=%s unexpected exception" % a.prop)
        sys.exit(2)
    sys.exit(rc)


if __name__ == "__main__":
    main()
