"""CLI:  ./check Cxx --tier quick|thorough [--replay FILE] [--selftest]   |   ./check --setup"""
import argparse
import importlib
import json
import os
import sys
import traceback

from .vlib import util
from .vlib.report import MachineryError


def main():
    ap = argparse.ArgumentParser()
    ap.add_argument("prop", nargs="?")
    ap.add_argument("--tier", default=os.environ.get("VERIF_TIER", "quick"), choices=["quick", "thorough"])
    ap.add_argument("--replay")
    ap.add_argument("--selftest", action="store_true")
    ap.add_argument("--setup", action="store_true")
    ap.add_argument("--only", help="comma-separated sub-check names (development aid)")
    a = ap.parse_args()
    if a.setup:
        from . import setup
        sys.exit(setup.run())
    if not a.prop:
        ap.error("property id required")
    name = a.prop.lower()
    try:
        mod = importlib.import_module("harness.checks." + name)
    except ModuleNotFoundError:
        print("no check for", a.prop)
        sys.exit(2)
    try:
        if a.replay:
            with open(a.replay) as f:
                rp = json.load(f)
            rc = mod.replay(rp)
        else:
            only = a.only.split(",") if a.only else None
            rc = mod.run(a.tier, selftest=a.selftest, only=only)
    except MachineryError as e:
        print("MACHINERY-FAILURE property=%s %s" % (a.prop, e))
        sys.exit(2)
    except Exception:
        traceback.print_exc()
        print("MACHINERY-FAILURE property=%s unexpected exception" % a.prop)
        sys.exit(2)
    sys.exit(rc)


if __name__ == "__main__":
    main()
