"""Ask TLC to evaluate RDModel / RDStep operators (laws, rates, rate law) on harness-supplied inputs."""
import json
import multiprocessing as mp
import os

from .vlib import tlc, util
from .vlib.report import MachineryError


def _one(args):
    mode, items, idx = args
    d = util.subdir("eval")
    fin = os.path.join(d, "in_%s_%d_%d.json" % (mode, os.getpid(), idx))
    fout = os.path.join(d, "out_%s_%d_%d.json" % (mode, os.getpid(), idx))
    with open(fin, "w") as f:
        json.dump(items, f)
    r = tlc.run("Eval_RD", workers=1, env={"IN_FILE": fin, "OUT_FILE": fout, "MODE": mode}, timeout=1200, heap="3g")
    if "EVAL-DONE" not in r.out or not os.path.exists(fout):
        return None, r
    with open(fout) as f:
        out = json.load(f)
    os.remove(fin)
    os.remove(fout)
    return out, r


def evaluate(mode, items, rep=None, shards=None):
    """items: list of cfg dicts (+ 'states'). Returns list of results aligned with items."""
    if not items:
        return []
    shards = shards or min(util.NCPU, max(1, len(items) // 8))
    parts = [(mode, items[s::shards], s) for s in range(shards)]
    ctx = mp.get_context("fork")
    with ctx.Pool(len(parts)) as pool:
        res = pool.map(_one, parts)
    out = [None] * len(items)
    for s, (o, r) in enumerate(res):
        if rep is not None:
            rep.add_tlc("Eval_RD[%s]" % mode, r, note="operator evaluation (ASSUME), no state graph")
        if o is None:
            raise MachineryError("TLC evaluation (%s) failed: %s\n%s" % (mode, r.error, r.tail(25)))
        for k, v in enumerate(o):
            out[s + k * shards] = v
    return out
