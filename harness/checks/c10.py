"""C10 - Simulations terminate, and the engine lifecycle is crash-free and isolated."""
import math
import random

from .. import engine_hist as H
from .. import engine_val
from ..vlib import tlc, util
from ..vlib.report import MachineryError, Report

PROP = "C10"


def model_check(rep, tier):
    depth = 6 if tier == "quick" else 8
    tlc.write_cfg("MC_EngineLifecycle_run", open(tlc.workdir() + "/MC_EngineLifecycle.cfg").read()
                  .replace("MaxDepth = 6", "MaxDepth = %d" % depth))
    r = tlc.run("MC_EngineLifecycle", cfg="MC_EngineLifecycle_run", coverage=True, timeout=1500)
    rep.add_tlc("MC_EngineLifecycle(depth=%d)" % depth, r)
    if not r.ok:
        if r.violated:
            rep.violation("model", "model:lifecycle:" + r.violated, {"tlc": r.tail(60)})
        else:
            raise MachineryError("TLC failed: %s\n%s" % (r.error, r.tail(20)))
    cov = r.coverage()
    never = [a for a in ("Setup", "Iterate", "IterateN", "Run", "SampleCall", "GetProgress", "IsComplete",
                         "GetOutput", "Finalize", "Drop") if cov.get(a, (0, 0))[1] == 0]
    rep.extra["lifecycle_action_coverage"] = {k: v[1] for k, v in cov.items() if k in
                                              ("Setup", "Iterate", "IterateN", "Run", "SampleCall", "GetProgress",
                                               "IsComplete", "GetOutput", "Finalize", "Drop", "Undefined")}
    if never:
        raise MachineryError("vacuous model run, actions never taken: %s" % never)
    r = tlc.run("MC_EngineLifecycle", cfg="MC_EngineLive", timeout=600)
    rep.add_tlc("MC_EngineLive(liveness: iterated simulations complete)", r)
    if not r.ok:
        if r.violated:
            rep.violation("model", "model:liveness:" + r.violated, {"tlc": r.tail(60)})
        else:
            raise MachineryError("TLC failed: %s\n%s" % (r.error, r.tail(20)))


def driver_model_check(rep):
    """Simulate.tla: the simulate_script driver as a program over the Engine actions."""
    r = tlc.run("MC_Simulate", cfg="MC_Simulate", coverage=True, timeout=900)
    rep.add_tlc("MC_Simulate (driver: terminates, returns the record of a completed run, releases the engine)", r)
    if not r.ok:
        if r.violated:
            rep.violation("model", "model:driver:" + r.violated, {"tlc": r.tail(60)})
        else:
            raise MachineryError("TLC failed: %s\n%s" % (r.error, r.tail(20)))
    cov = r.coverage()
    never = [a for a in ("DBegin", "DSetup", "DRunJ", "DProgress", "DFetch", "DRelease", "DReturn") if cov.get(a, (0, 0))[1] == 0]
    if never:
        raise MachineryError("vacuous driver model run, actions never taken: %s (coverage keys %s)" % (never, sorted(cov)[:30]))
    # a driver that leaves the loop while the engine says "continue" must be refuted
    d = tlc.mutant_dir("driver_loop_inverted", "Simulate",
                       [('pc\' = (IF obs\'.ret THEN "loop" ELSE "fetch")', 'pc\' = (IF obs\'.ret THEN "fetch" ELSE "loop")')])
    m = tlc.run("MC_Simulate", cfg="MC_Simulate", wd=d, timeout=600)
    rep.selftest("spec-mutant driver leaves the loop on 'continue'", m.violated in ("ReturnsCompletedRun", "LoopOnlyWhileUnfinished", "Terminates"),
                 "violated=%s" % m.violated)
    d = tlc.mutant_dir("driver_no_release", "Simulate",
                       [('DRelease  == pc = "release" /\\ Finalize(DriverObj) /\\ pc\' = "released" /\\ Count("finalize") /\\ UNCHANGED out',
                         'DRelease  == pc = "release" /\\ IsComplete(DriverObj) /\\ pc\' = "released" /\\ UNCHANGED <<out, ncalls>>')])
    m = tlc.run("MC_Simulate", cfg="MC_Simulate", wd=d, timeout=600)
    rep.selftest("spec-mutant driver does not release the engine", m.violated == "ReturnsCompletedRun", "violated=%s" % m.violated)


def histories(tier, seed):
    rng = random.Random(seed * 7919 + 10)
    out = []
    d1 = 3 if tier == "quick" else 4
    d2 = 2 if tier == "quick" else 3
    n = 0
    for kind in H.KINDS:
        for calls in H.exhaustive_single(d1):
            out.append(H.mk_history("s%d" % n, calls, {"e1": kind}))
            n += 1
        # the graph engines are separate classes: the same exploration one level shallower on graph spaces
        for calls in H.exhaustive_single(d1 - 1):
            out.append(H.mk_history("g%d" % n, calls, {"e1": kind}, cfgs=H.cfgs_for(kind, "graph")))
            n += 1
        for calls in H.exhaustive_single(2):
            out.append(H.mk_history("l%d" % n, calls, {"e1": kind}, cfgs=H.cfgs_for(kind, "graphloop")))
            n += 1
        # the same object set up on a grid, on a graph, on a grid again ... with and without releasing it in between
        for calls in H.exhaustive_switching(4 if tier == "quick" else 5):
            out.append(H.mk_history("w%d" % n, calls, {"e1": kind}, cfgs=H.cfgs_mixed(kind)))
            n += 1
    pairs = [("euler", "euler"), ("euler", "gillespie"), ("gillespie", "tauleap")]
    for k1, k2 in pairs:
        for calls in H.exhaustive_double(d2):
            out.append(H.mk_history("d%d" % n, calls, {"e1": k1, "e2": k2}, cfgs=H.LC_CFGS))
            n += 1
    nr1, nr2 = (150, 90) if tier == "quick" else (3000, 1500)
    for i in range(nr1):
        kind = H.KINDS[i % 3]
        out.append(H.mk_history("r%d" % n, H.random_history(rng, rng.randint(8, 40)), {"e1": kind},
                                cfgs=H.cfgs_mixed(kind) if i % 5 == 4 else H.cfgs_for(kind, ("grid", "graph", "grid", "graphloop")[i % 4])))
        n += 1
    for i in range(nr2):
        k1, k2 = rng.choice(H.KINDS), rng.choice(H.KINDS)
        out.append(H.mk_history("q%d" % n, H.random_history(rng, rng.randint(6, 30), two=True),
                                {"e1": k1, "e2": k2}, cfgs=H.LC_CFGS))
        n += 1
    # the completion status is kept per engine object: after one object completed, setting up and driving another one
    # (same kind or not, any order of requests) leaves the first object's answer alone. (Only calls that are safe under
    # finding F6 - the status queries of the first object read nothing from the native simulation.)
    for k1 in H.KINDS:
        for k2 in H.KINDS:
            for first, second in (("e1", "e2"), ("e2", "e1")):
                for c1, c2 in (("A", "B"), ("C", "A")):
                    calls = [["setup", first, c1], ["iterate_n", first, 1000], ["is_complete", first], ["setup", second, c2],
                             ["is_complete", first], ["is_complete", second], ["iterate", second], ["is_complete", first],
                             ["iterate_n", second, 1000], ["is_complete", second], ["is_complete", first]]
                    out.append(H.mk_history("i%d" % n, calls, {"e1": k1 if first == "e1" else k2, "e2": k2 if first == "e1" else k1}, cfgs=H.LC_CFGS))
                    n += 1
    out += H.handover_histories()
    # every other history obtains its engine objects from the package's factories (engine_collection), the others from
    # the LibRDEngine constructor: two requests must give two objects with their own status
    for i, h in enumerate(out):
        if i % 2:
            h["factories"] = True
    return out


# scripts whose real-valued state holds less than one molecule in total, fractional cells, etc.
def termination_histories(tier, seed):
    rng = random.Random(seed + 4242)
    out = []
    n = 0
    states = [[0.3, 0.3, 0.0, 0.0], [0.3, 0.3, 0.4, 0.2], [0.0, 0.9, 0.0, 0.0], [1.5, 0.25, 0.0, 2.75],
              [0.6, 0.0, 0.0, 0.7], [2.5, 2.5, 0.5, 0.5], [0.999, 0.0005, 0.0, 0.0]]
    nseeds = 4 if tier == "quick" else 40
    for st in states:
        for kind in ("tauleap", "gillespie"):
            for space in ("grid", "graph"):
                for sd in range(nseeds):
                    c = dict(system="decay", space=space, dt=0.5, ts=[0, 0.5], policy="on_t_sample",
                             seed=seed * 1000 + sd, state=st)
                    calls = [["setup", "e1", "T"], ["iterate_n", "e1", 30], ["get_output", "e1"], ["finalize", "e1"]]
                    out.append({"id": "t%d" % n, "kinds": {"e1": kind}, "cfgs": {"T": c}, "calls": calls, "view": "own"})
                    n += 1
    return out


def step_counts(rep):
    """A fixed-step run completes after ceil(t_max/dt) steps, give or take one."""
    from .. import engine_rec
    r = engine_rec.Runner()
    bad = 0
    cases = [(dt, tmax, None) for dt, tmax in [(0.1, 0.3), (0.1, 1.0), (0.25, 1.0), (0.3, 1.0), (1e-3, 0.0105), (0.7, 0.1), (0.5, 0.0), (0.1, 0.7)]]
    # the same with the horizon stated in another unit than the script's: explicitly, or through the requested times
    cases += [(0.1, 0.3, "tmax-ms"), (0.25, 1.0, "ts-ms"), (0.5, 3.0, "tmax-min"), (0.1, 0.7, "ts-min-script-ms")]
    for dt, tmax, how in cases:
        for kind, space in (("euler", "grid"), ("tauleap", "grid"), ("euler", "graph"), ("tauleap", "graph")):
            c = dict(system="birth", space=space, dt=dt, ts=[tmax], policy="no_sampling", seed=5)
            if how == "tmax-ms":
                c.update(ts=[0.0], tmax="%r ms" % (tmax * 1e3))
            elif how == "ts-ms":
                c.update(ts=[tmax * 1e3], ts_unit="ms")
            elif how == "tmax-min":
                c.update(ts=[0.0], tmax="%r min" % (tmax / 60))
            elif how == "ts-min-script-ms":
                c.update(ts=[tmax / 60], ts_unit="min", dt=dt * 1e3, units={"time": "ms"})
            rf = r.ref(c, kind)
            if isinstance(rf, tuple):
                rep.violation("step-count", "engine:ref-" + rf[0], {"cfg": c, "kind": kind})
                continue
            n = len(rf.T) - 1
            want = math.ceil(tmax / dt)
            rep.case(["steps", dt, tmax, kind, space, how])
            if not rf.ended or abs(n - want) > 1:
                bad += 1
                rep.violation("step-count", "engine:fixed-step-count",
                              {"dt": dt, "tmax": tmax, "kind": kind, "steps": n, "expected": want, "ended": rf.ended})
    rep.extra["step_count_cases"] = 4 * len(cases)


def run(tier, selftest=False, only=None):
    rep = Report(PROP, tier)
    rep.rule = ("histories = all lifecycle-respecting call sequences of bounded length over one / two engine objects "
                "(alphabet: setup x3 configs, iterate, iterate_n(2), run(0), sample, get_progress, is_complete, "
                "get_output, finalize) x engine kinds, plus seeded random longer ones and sub-molecule scripts; "
                "each is executed on the engine built from the working tree in a forked child and the recorded "
                "trace validated against Engine.tla by TLC; the driver simulate_script is modelled in Simulate.tla (TLC: terminates, "
                "returns the record of a completed run, releases the engine) and the calls it makes on a recording proxy engine are "
                "validated against Trace_Simulate.tla; distinct = distinct recorded traces with > 2 events")
    rep.assumptions = [
        "run(ms) is exercised with ms = 0..2; its slice length is whatever the wall clock gives and is validated, not controlled",
        "iterate_n(k) with k >= 0",
        "two-object histories use configurations of identical state size (the shared native simulation would otherwise overflow the caller's buffer)",
        "hang = no return within 20 s for a history whose normal duration is milliseconds",
    ]
    seed = util.seed()
    sel = lambda n: only is None or n in only
    if sel("model"):
        model_check(rep, tier)
    if sel("hist"):
        hs = histories(tier, seed)
        H.check_histories(rep, hs, "lifecycle")
        rep.extra["histories"] = len(hs)
        rep.exhaustive = True
    if sel("term"):
        ths = termination_histories(tier, seed)
        H.check_histories(rep, ths, "termination")
    if sel("steps"):
        step_counts(rep)
    if sel("driver"):
        driver_model_check(rep)
        dh = H.driver_histories(tier, seed)
        H.check_driver_histories(rep, dh)
        rep.extra["driver_histories"] = len(dh)
    if selftest or sel("selftest") and only:
        self_test(rep)
    return rep.finish()


def self_test(rep):
    """Corrupt one recorded field / drop one event: the trace specification must reject."""
    calls = [["setup", "e1", "A"], ["iterate", "e1"], ["sample", "e1"], ["iterate_n", "e1", 2], ["get_output", "e1"], ["finalize", "e1"]]
    h = H.mk_history("st", calls, {"e1": "euler"})
    tr = engine_val.record([h])[0]
    acc, _ = engine_val.validate([tr])
    if "st" not in acc:
        raise MachineryError("self-test baseline trace was rejected: %s" % engine_val.diagnose(tr))
    import copy
    muts = []
    t1 = copy.deepcopy(tr); t1["id"] = "m1"; t1["ev"][1]["ns"] += 1; muts.append(("ns+1 after iterate", t1))
    t2 = copy.deepcopy(tr); t2["id"] = "m2"; del t2["ev"][1]; muts.append(("dropped iterate event", t2))
    t3 = copy.deepcopy(tr); t3["id"] = "m3"; t3["ev"][3]["ret"] = not t3["ev"][3]["ret"]; muts.append(("flipped return value", t3))
    t4 = copy.deepcopy(tr); t4["id"] = "m4"; t4["ev"][4]["recN"][-1] += 1; muts.append(("record attributed to another step", t4))
    t5 = copy.deepcopy(tr); t5["id"] = "m5"; t5["ev"][2]["ns"] -= 1; muts.append(("manual sample not recorded", t5))
    acc, _ = engine_val.validate([m for _, m in muts])
    for name, m in muts:
        rep.selftest(name, m["id"] not in acc)
    # the same for the driver binding
    h = {"id": "sd", "kinds": {"e1": "euler"}, "cfgs": H.cfgs_for("euler", "grid"), "calls": [["simulate", "e1", "A", 1]], "view": "own"}
    tr = engine_val.record([h])[0]
    acc, _ = engine_val.validate([tr], cfg="Trace_Simulate", module="Trace_Simulate")
    if "sd" not in acc:
        raise MachineryError("self-test baseline driver trace was rejected: %s" % [e.get("call") for e in tr["ev"]])
    names = [e["call"] for e in tr["ev"]]
    dm = []
    t1 = copy.deepcopy(tr); t1["id"] = "d1"; del t1["ev"][names.index("finalize")]; dm.append(("driver trace without the finalize call", t1))
    t2 = copy.deepcopy(tr); t2["id"] = "d2"; t2["ev"][-1]["outok"] = False; dm.append(("driver returns something else than its get_output", t2))
    t3 = copy.deepcopy(tr); t3["id"] = "d3"; i = names.index("get_output"); t3["ev"][i], t3["ev"][i + 1] = t3["ev"][i + 1], t3["ev"][i]
    dm.append(("driver fetches the output after releasing the engine", t3))
    t4 = copy.deepcopy(tr); t4["id"] = "d4"; t4["ev"].insert(names.index("get_output"), copy.deepcopy(t4["ev"][names.index("run")]))
    dm.append(("driver runs again after the engine reported completion", t4))
    acc, _ = engine_val.validate([m for _, m in dm], cfg="Trace_Simulate", module="Trace_Simulate")
    for name, m in dm:
        rep.selftest(name, m["id"] not in acc)


def replay(rp):
    rep = Report(PROP, "quick")
    h = rp.get("replay", {}).get("history")
    if not h:
        print("replay file has no history")
        return 2
    H.check_histories(rep, [h], "replay")
    return rep.finish()
