"""C14 - Initial-state processing yields a valid molecular state with the right totals."""
import ctypes
import json
import math
import multiprocessing as mp
import os
import pickle
import random
import re

import numpy as np

from .. import engine_rec
from ..vlib import build, tlc, util
from ..vlib.report import MachineryError, Report

util.ensure_repo_importable()
from strengths import (RDGridSpace, RDNetwork, RDScript, RDSystem, Reaction, Species, UnitArray, UnitValue, UnitsSystem,
                       rdscript_from_dict, rdscript_to_dict)  # noqa: E402
from strengths.coarsegrain import grid_to_graph  # noqa: E402

PROP = "C14"
AMOUNTS = [0.0, 0.0, 0.25, 0.5, 0.75, 1.0, 1.5, 2.75, 7.0, 120.5, 250.0]
MODES = ["auto", "none", "Poisson", "redist"]
_lib = None


def _init():
    global _lib
    _lib = ctypes.CDLL(build.build_engine("plain"))


def mk_system(ncells, space, state):
    net = RDNetwork(species=[Species("A", D=1.0), Species("B", D=0.5)], reactions=[Reaction("A -> B", kf=0.5)])
    g = RDGridSpace(w=ncells, h=1, d=1)
    sp = g if space == "grid" else grid_to_graph(g)
    return RDSystem(network=net, space=sp, state=UnitArray(state, "molecule"))


def _job(args):
    kind, space, mode, ncells, state, seed, usys = args
    r, w = os.pipe()
    pid = os.fork()
    if pid == 0:
        os.close(r)
        try:
            system = mk_system(ncells, space, state)
            # (two jobs out of three start after a simulation of another engine kind in the same process, as a session would)
            prev = ["gillespie", "tauleap", "euler"][(seed + ncells) % 3]
            if prev != kind and (seed + 2 * ncells) % 3 != 0:
                e0 = build.make_engine(prev, lib=_lib)
                e0.setup(RDScript(system=system, t_sample=[UnitValue(0.0, "s")], time_step=UnitValue(0.5, "s"), rng_seed=seed + 1))
                e0.iterate()
                e0.finalize()
            outs = []
            for rep_i in range(2):
                kw = {}
                if usys:        # the script (= output) units: the stochastic engines still work in molecules internally
                    kw["units_system"] = UnitsSystem(space=usys[0], time=usys[1], quantity=usys[2])
                script = RDScript(system=system, t_sample=[UnitValue(0.0, "s"), UnitValue(1.0, "s")], time_step=UnitValue(0.5, "s"),
                                  rng_seed=seed, init_state_processing=mode, **kw)
                if rep_i == 1 and (seed + ncells) % 2 == 0:
                    # the repetition runs the script read back from its own dictionary: the same mode, seed and state
                    script = rdscript_from_dict(json.loads(json.dumps(rdscript_to_dict(script))))
                eng = build.make_engine(kind, lib=_lib)
                eng.setup(script)
                x0 = engine_rec.raw_state(_lib, 2 * ncells)
                traj = engine_rec.raw_traj(_lib, 2 * ncells)
                eng.finalize()
                outs.append((list(map(float, x0)), [list(map(float, row)) for row in traj]))
            msg = pickle.dumps(("ok", outs))
        except BaseException as e:  # noqa
            msg = pickle.dumps(("exc", repr(e)[:300]))
        with os.fdopen(w, "wb") as f:
            f.write(msg)
        os._exit(0)
    os.close(w)
    data = engine_rec._read_all(r, 20, pid)
    _, status = os.waitpid(pid, 0)
    if data is None:
        return ("hang",)
    if os.WIFSIGNALED(status) or not data:
        return ("crash",)
    return pickle.loads(data)


USYS = [("µm", "s", "nmol"), ("nm", "ms", "mol"), ("mm", "min", "µmol"), ("µm", "s", "kmol")]


def _usys(kind, k):
    """every third stochastic job runs under a script whose quantity unit is not the molecule"""
    if kind == "euler" or k % 3 != 1:
        return None
    return USYS[(k // 3) % len(USYS)]


def effective(mode, kind):
    if mode == "auto":
        return "none" if kind == "euler" else "redist"
    return mode


def run(tier, selftest=False, only=None):
    rep = Report(PROP, tier)
    rep.rule = ("model: the redistribution machine over all real-valued inputs in quarters {0, .25, .5, 1, 1.75} on 3 cells x all "
                "draws up to 2 per cell: post-conditions as invariants and termination under fairness (TLC liveness); the "
                "floored-range variant (the code before fix F3) is kept as a spec mutant and must violate termination; "
                "implementation: sample 0 of 4 modes x 3 engines x grid / graph x seeded states (empty cells, sub-molecule "
                "totals, exact integers, amounts above the Poisson / normal switch) x seeds, run twice each: 'none' bit-identical "
                "to the input, 'redist' / 'Poisson' outcomes validated by TLC as terminal states of InitState for that input, "
                "same seed same result, Poisson means within a 1e-12 tail bound; distinct = distinct (engine, space, mode, state, seed)")
    rep.assumptions = ["inputs are multiples of 1/4 molecule so that totals and floors are exact in binary64 and in the specification",
                       "the Poisson-mode distribution is checked through its mean only"]
    seed = util.seed()
    rng = random.Random(seed * 29 + 14)
    r = tlc.run("InitState", cfg="MC_InitState", timeout=1800, heap="8g")
    rep.add_tlc("InitState (post-conditions, termination under fairness)", r)
    if not r.ok:
        if r.violated:
            rep.violation("model", "model:initstate:" + r.violated, {"tlc": r.tail(40)})
        else:
            raise MachineryError("TLC failed: %s\n%s" % (r.error, r.tail(20)))
    old = tlc.run("InitState", cfg="MC_InitStateOld", timeout=1800, heap="8g")
    rep.selftest("spec-mutant: target drawn over the floored total never terminates", old.violated == "Terminates", "violated=%s" % old.violated)
    # ---- implementation ----
    jobs = []
    nstates, nseeds = (14, 3) if tier == "quick" else (60, 10)
    states = []
    for _ in range(nstates):
        n = rng.randint(1, 4)
        st = [rng.choice(AMOUNTS) for _ in range(2 * n)]
        if n >= 2:      # different zero patterns for the two species: exposes a missing transposition
            st[1] = 0.0
            st[n] = max(st[n], 1.5)
        states.append((n, st))
    states += [(2, [0.25, 0.25, 0.0, 0.0]), (3, [0.75, 0.0, 0.5, 0.0, 0.0, 0.25]), (1, [0.5, 0.0])]
    for n, st in states:
        for kind in ("euler", "tauleap", "gillespie"):
            for space in ("grid", "graph"):
                for mode in MODES:
                    for sd in range(nseeds):
                        # seeds over the whole documented range 0 .. 2^32 - 1 (the first three of every group sit at its ends)
                        sval = [0, 2 ** 31 + seed, 2 ** 32 - 1 - seed][sd] if sd < 3 and (len(jobs) // nseeds) % 2 == 0 else seed * 1000 + sd
                        jobs.append((kind, space, mode, n, st, sval, _usys(kind, len(jobs))))
    # sparse species over many cells: the correction loop of the redistribution keeps hitting cells whose draw was 0
    sparse_seeds = 40 if tier == "quick" else 400
    for n in (5, 6, 8):
        for _ in range(2):
            st = [rng.choice([0.25, 0.5, 0.75, 0.0, 0.5]) for _ in range(n)] + [rng.choice([0.0, 0.25, 1.5, 0.75]) for _ in range(n)]
            for kind in ("tauleap", "gillespie"):
                for space in ("grid", "graph"):
                    for sd in range(sparse_seeds):
                        jobs.append((kind, space, "redist" if sd % 2 else "auto", n, st, seed * 7000 + sd, _usys(kind, len(jobs))))
    build.build_engine("plain")
    ctx = mp.get_context("fork")
    with ctx.Pool(util.NCPU, initializer=_init) as pool:
        res = pool.map(_job, jobs, chunksize=8)
    cases = []
    pois = {}
    for idx, (job, out) in enumerate(zip(jobs, res)):
        kind, space, mode, n, st, sd, usys = job
        tag = {"engine": kind, "space": space, "mode": mode, "state": st, "seed": sd, "script_units": usys}
        rep.case(list(job))
        if out[0] != "ok":
            rep.violation("run", "init:%s:%s" % (out[0], effective(mode, kind)), dict(tag, info=list(out)))
            continue
        (x0, traj), (x0b, trajb) = out[1]
        if x0 != x0b or traj != trajb:
            rep.violation("run", "init:not-reproducible", tag)
            continue
        if not traj or traj[0] != x0:
            rep.violation("run", "init:sample0-is-not-the-processed-state", dict(tag, sample0=traj[:1], state=x0))
            continue
        eff = effective(mode, kind)
        if eff == "none":
            if x0 != [float(v) for v in st]:
                rep.violation("none", "init:none-changes-state", dict(tag, got=x0))
            continue
        integral = all(float(v).is_integer() and abs(v) < 2 ** 30 for v in x0)
        for s in range(2):
            cases.append({"id": "%d.%d" % (idx, s), "mode": eff, "x4": [int(round(4 * v)) for v in st[s * n:(s + 1) * n]],
                          "sto": [int(v) if integral else 0 for v in x0[s * n:(s + 1) * n]], "integral": integral})
        if eff == "Poisson":
            key = (kind, space, n, tuple(st))
            acc = pois.setdefault(key, [np.zeros(2 * n), 0])
            acc[0] += np.array(x0)
            acc[1] += 1
    # TLC validates every (input, outcome) pair
    d = util.subdir("traces")
    p = os.path.join(d, "init_cases.json")
    with open(p, "w") as f:
        json.dump(cases, f)
    rt = tlc.run("Trace_InitState", workers=1, env={"TRACE_FILE": p}, timeout=1800, heap="4g")
    rep.add_tlc("Trace_InitState", rt)
    if not rt.ok:
        raise MachineryError("TLC failed on initial-state cases: %s\n%s" % (rt.error, rt.tail(20)))
    acc = set(re.findall(r'<<"ACCEPTED", "([^"]*)">>', rt.out))
    for c in cases:
        if c["id"] not in acc:
            job = jobs[int(c["id"].split(".")[0])]
            why = "not-integers" if not c["integral"] else ("molecule-in-empty-cell" if any(x == 0 and s != 0 for x, s in zip(c["x4"], c["sto"]))
                                                              else "negative" if any(s < 0 for s in c["sto"]) else "total")
            rep.violation("outcome", "init:%s:%s" % (c["mode"], why),
                          {"engine": job[0], "space": job[1], "mode": job[2], "state": job[4], "seed": job[5],
                           "species": int(c["id"].split(".")[1]), "real_amounts_x4": c["x4"], "recorded": c["sto"]})
    rep.traces = len(cases)
    # Poisson means
    L = math.log(2 / 1e-12)
    for (kind, space, n, st), (tot, cnt) in pois.items():
        for k, lam in enumerate(st):
            Lam = lam * cnt
            t = math.sqrt(2 * Lam * L) + L / 3
            if abs(tot[k] - Lam) > t:
                rep.violation("poisson", "init:Poisson-mean", {"engine": kind, "space": space, "state": list(st), "entry": k,
                                                               "sum_over_seeds": float(tot[k]), "expected": Lam, "tolerance": t, "seeds": cnt})
    rep.extra["runs"] = len(jobs)
    rep.sample({"job": list(jobs[5]), "sample0": res[5][1][0][0] if res[5][0] == "ok" else res[5]})
    if selftest:
        bad = [{"id": "b1", "mode": "redist", "x4": [1, 1, 0], "sto": [0, 1, 0], "integral": True},
               {"id": "b2", "mode": "Poisson", "x4": [0, 4], "sto": [1, 3], "integral": True},
               {"id": "g1", "mode": "redist", "x4": [6, 6, 0], "sto": [1, 2, 0], "integral": True}]
        with open(p, "w") as f:
            json.dump(bad, f)
        rt = tlc.run("Trace_InitState", workers=1, env={"TRACE_FILE": p}, timeout=300)
        acc = set(re.findall(r'<<"ACCEPTED", "([^"]*)">>', rt.out))
        rep.selftest("wrong total and molecule in an empty cell are rejected, a correct outcome accepted", acc == {"g1"}, str(acc))
    return rep.finish()


def replay(rp):
    return run("quick")
