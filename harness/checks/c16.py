"""C16 - Coarse-graining conserves matter and geometry; un-coarse-graining inverts it."""
import itertools
import json
import random
from fractions import Fraction as Fr

import numpy as np

from .. import units_oracle as UO
from ..vlib import build, tlc, util
from ..vlib.report import MachineryError, Report

util.ensure_repo_importable()
from strengths import (RDGridSpace, RDNetwork, RDSystem, RDTrajectory, Reaction, Species, UnitArray, UnitValue, UnitsSystem, simulate)  # noqa: E402
from strengths.coarsegrain import coarsegrain_system, uncoarsegrain_trajectory  # noqa: E402

PROP = "C16"


def close(a, b, rtol=1e-9):
    return a == b or abs(a - b) <= rtol * max(abs(a), abs(b), 1e-300)


AMOUNT_SCALE = 0.375


def build_system(c, usys, vol, state_unit="molecule"):
    w, h, d = c["shape"]
    n = w * h * d
    # diffusion coefficients differ between the environments (one of them zero on one side): the interface terms matter
    net = RDNetwork(species=[Species("A", D={"e0": 1.0, "e1": 0.25}), Species("B", D={"e0": 0.5, "e1": 0.0}), ],
                    # several reaction channels of different orders (the per-cell constants scale with volume^(1 - order))
                    reactions=[Reaction("A -> B", kf={"e0": 0.1, "e1": 0.3}, kr={"e0": 0.05, "default": 0.2}),
                               Reaction("2 B -> A", kf=0.01), Reaction(" -> B", kf={"e1": 0.5})], environments=["e0", "e1"])
    space = RDGridSpace(w=w, h=h, d=d, cell_env=list(c["env"]), cell_vol=vol, units_system=usys)
    # the specification's amounts 11, 12, ... scaled by 3/8: not whole numbers, yet sums and quotients stay exact in binary
    state = [AMOUNT_SCALE * (11 + k) for k in range(n)] + [AMOUNT_SCALE * (2 * k + 1) for k in range(n)]
    # (both species carry flags, in different patterns: the first one's is the specification's Chem, the second one's every odd cell)
    chem = [int((k + 1) % 3 == 0) for k in range(n)] + [int(k % 2 == 1) for k in range(n)]
    return RDSystem(network=net, space=space, state=UnitArray(state, state_unit), chemostats=chem, units_system=usys)


def check_case(rep, c, rng, systems):
    usys_t = rng.choice(systems)
    usys = UnitsSystem(*usys_t)
    vol = rng.choice([1.0, 8.0, 27.0])
    edge = round(vol ** (1 / 3))
    system = build_system(c, usys, vol)
    n = len(c["map"])
    imap = [int(v) for v in c["map"]]
    tag = {"shape": c["shape"], "env": c["env"], "map": imap, "units": usys_t, "cell_vol": vol}
    rep.case([c["shape"], c["env"], imap], nontrivial=True)
    try:
        cg = coarsegrain_system(system, imap)
        err = None
    except Exception as e:  # noqa
        cg, err = None, repr(e)[:200]
    if not c["valid"]:
        if cg is not None:
            rep.violation("validity", "coarse:invalid-map-accepted", tag)
        return
    if cg is None:
        dropped_envs = {c["env"][k] for k in range(n) if imap[k] == -1}
        rep.violation("validity", "coarse:valid-map-rejected:" + ("dropped-cells-of-several-environments" if len(dropped_envs) > 1 else
                                                                   "dropped-cells" if dropped_envs else "no-dropped-cells"),
                      dict(tag, exc=err))
        return
    G = len(c["nodes"])
    sp = cg.space
    if len(sp.nodes) != G:
        rep.violation("nodes", "coarse:node-count", dict(tag, got=len(sp.nodes), spec=G))
        return
    vols = sp.get_cell_vol_array().convert(usys).value
    st = cg.state.convert("molecule").value
    for g, nd in enumerate(c["nodes"]):
        if not close(float(vols[g]), nd["size"] * vol) or sp.nodes[g].environment != nd["env"]:
            rep.violation("nodes", "coarse:node-volume-or-environment", dict(tag, group=g, got_vol=float(vols[g]), spec_vol=nd["size"] * vol,
                                                                            got_env=sp.nodes[g].environment, spec_env=nd["env"]))
            return
        # flags are 0 / 1 (a group is chemostated if any member is - GroupChem), for every species
        second = int(any(k % 2 == 1 for k in range(n) if imap[k] == g))
        if cg.chemostats[g] != int(nd["chem"]) or cg.chemostats[G + g] != second:
            rep.violation("nodes", "coarse:chemostat", dict(tag, group=g, got=[float(cg.chemostats[g]), float(cg.chemostats[G + g])],
                                                          spec=[int(nd["chem"]), second]))
            return
        if not close(float(st[g]), AMOUNT_SCALE * float(nd["x"])):
            rep.violation("nodes", "coarse:state", dict(tag, group=g, got=float(st[g]), spec=AMOUNT_SCALE * nd["x"]))
            return
    got = {}
    for e in sp.edges:
        key = (min(e.i, e.j), max(e.i, e.j))
        if e.i == e.j or key in got:
            rep.violation("edges", "coarse:self-loop-or-duplicate-edge", dict(tag, edge=[e.i, e.j]))
            return
        got[key] = e
    want = {(e["i"], e["j"]): e for e in c["edges"]}
    if set(got) != set(want):
        rep.violation("edges", "coarse:edge-set", dict(tag, got=sorted(got), spec=sorted(want)))
        return
    for key, e in got.items():
        sfc = e.surface.convert(usys).value
        dst = e.distance.convert(usys).value
        ws = want[key]["faces"] * edge * edge
        wd2 = float(Fr(*want[key]["d2"])) * edge * edge
        if not close(sfc, ws) or not close(dst * dst, wd2, 1e-8):
            rep.violation("edges", "coarse:surface-or-distance", dict(tag, edge=list(key), surface=sfc, spec_surface=ws, distance=dst,
                                                                      spec_distance2=wd2))
            return
    # un-coarse-graining a trajectory made of the coarse state spreads each group evenly
    traj = RDTrajectory(data=UnitArray(np.concatenate([st, 2 * np.array(st)]), "molecule"), t_sample=UnitArray([0.0, 1.0], "s"), system=cg)
    before = traj.data.value.tobytes()
    state_before = system.state.value.tobytes(), cg.state.value.tobytes()
    un = uncoarsegrain_trajectory(traj, system, imap)
    # the inverse is a function of its arguments: they are left as they were, and asking again gives the same answer
    un2 = uncoarsegrain_trajectory(traj, system, imap)
    if traj.data.value.tobytes() != before or (system.state.value.tobytes(), cg.state.value.tobytes()) != state_before:
        rep.violation("uncoarse", "coarse:uncoarsegrain-modifies-its-arguments", tag)
        return
    if un2.data.value.tobytes() != un.data.value.tobytes():
        rep.violation("uncoarse", "coarse:uncoarsegrain-not-repeatable", tag)
        return
    data = un.data.convert("molecule").value.reshape((2, 2, n))
    for k in range(n):
        g = imap[k]
        w0 = 0.0 if g == -1 else AMOUNT_SCALE * c["nodes"][g]["x"] / c["nodes"][g]["size"]
        if not close(float(data[0, 0, k]), w0) or not close(float(data[1, 0, k]), 2 * w0):
            rep.violation("uncoarse", "coarse:uncoarsegrain", dict(tag, cell=k, got=float(data[0, 0, k]), spec=w0))
            return
    if list(un.cgmap) != imap or un.ncells() != n:
        rep.violation("uncoarse", "coarse:uncoarsegrain-meta", tag)


def invalid_by_form(rep, rng):
    """maps that break the rules in ways the enumeration above cannot express"""
    c = {"shape": [2, 2, 1], "env": [0, 0, 1, 1]}
    system = build_system(c, UnitsSystem(), 1.0)
    bad = {"too-short": [0, 0, 1], "too-long": [0, 0, 1, 1, 0], "below-minus-one": [0, -2, 1, 1], "float": [0, 0.5, 1, 1],
           "all-dropped": [-1, -1, -1, -1], "gap": [0, 0, 2, 2], "mixing-environments": [0, 1, 1, 0], "string": ["0", 0, 1, 1]}
    for name, m in bad.items():
        rep.case(["invalid", name])
        try:
            coarsegrain_system(system, m)
            rep.violation("validity", "coarse:invalid-map-accepted:" + name, {"map": m})
        except Exception:
            pass


def identity_simulation(rep, rng, n):
    lib = build.load("plain")
    for k in range(n):
        w, h, d = rng.choice([(2, 1, 1), (2, 2, 1), (3, 2, 1), (2, 2, 2), (1, 1, 1)])
        c = {"shape": [w, h, d], "env": [rng.randrange(2) for _ in range(w * h * d)]}
        # every other system is described in units that are not the simulation's (the default ones): what reaches the
        # engine through the coarse-graining route must be converted like on the plain route
        usys = UnitsSystem() if k % 2 == 0 else UnitsSystem(space=rng.choice(["nm", "mm", "dm"]), time=rng.choice(["ms", "s", "min"]),
                                                            quantity=rng.choice(["molecule", "nmol"]))
        # (the cell volume is written with its unit, so the physical system - and the numerical regime - is the same in every
        #  case; the space stores it in its own units, which are not the simulation's)
        system = build_system(c, usys, "%g µm3" % rng.choice([1.0, 8.0, 0.125]))
        # (sample times well apart, or several inside one step followed by a gap, or repeated: the two routes sample alike)
        ts = UnitArray([[0.0, 0.01, 0.05], [0.0, 2e-4, 5e-4, 0.01, 0.02], [0.0, 0.0, 0.0105, 0.0105, 0.03]][k % 3], "s")
        dt = UnitValue(1e-3, "s")
        o1 = simulate(system, ts, engine=build.make_engine("euler", lib=lib), time_step=dt)
        o2 = simulate(system, ts, engine=build.make_engine("euler", lib=lib), time_step=dt, cgmap=list(range(w * h * d)))
        rep.case(["identity-sim", c["shape"], c["env"]])
        a, b = o1.data.convert("molecule").value, o2.data.convert("molecule").value
        if not np.all(np.isfinite(a)):
            raise MachineryError("identity-map probe system is numerically unstable (plain run not finite): %s" % c)
        if a.shape != b.shape or not np.allclose(a, b, rtol=1e-9, atol=1e-12) or not np.array_equal(o1.t.value, o2.t.value):
            rep.violation("identity", "coarse:identity-map-simulation", {"shape": c["shape"], "env": c["env"], "t_sample": list(ts.value), "t_plain": list(o1.t.value),
                                                                        "t_identity_map": list(o2.t.value),
                                                                        "max_diff": float(np.max(np.abs(a - b))) if a.shape == b.shape else None})


def run(tier, selftest=False, only=None):
    rep = Report(PROP, tier)
    rep.rule = ("model: every index map over -1..3 of grids 2x2x1, 3x1x1, 1x2x2 (thorough: all orientations of the 4-cell grids and 5x1x1) x every "
                "two-environment map: validity by the documented rules; for valid maps conservation of volume and amounts, "
                "environments, chemostat OR, edge soundness / completeness, un-coarse-graining totals, identity = grid graph "
                "(TLC); implementation: every emitted case through coarsegrain_system (accept exactly the valid maps; node "
                "volumes, environments, chemostats, state sums; edge set, surfaces, centroid distances) and "
                "uncoarsegrain_trajectory, in random unit systems and cell volumes; identity-map simulations; "
                "distinct = distinct (grid, environment map, index map)")
    rep.assumptions = ["reflecting boundaries (the only ones coarse-graining supports)", "distances compared squared, rtol 1e-8"]
    seed = util.seed()
    rng = random.Random(seed * 13 + 16)
    cfg = "MC_CoarseGrain"
    if tier == "thorough":
        tlc.write_cfg("MC_CoarseGrain_big", open(tlc.workdir() + "/MC_CoarseGrain.cfg").read().replace("QuickShapes", "ThoroughShapes"))
        cfg = "MC_CoarseGrain_big"
    r = tlc.run("MC_CoarseGrain", cfg=cfg, timeout=6000, heap="16g")
    rep.add_tlc("MC_CoarseGrain", r)
    if not r.ok:
        if r.violated:
            rep.violation("model", "model:coarsegrain:" + r.violated, {"tlc": r.tail(30)})
        else:
            raise MachineryError("TLC failed: %s\n%s" % (r.error, r.tail(20)))
    rep.exhaustive = True
    cases = [json.loads(tlc.unquote_tla_json(l)) for l in r.out.splitlines() if l.startswith('<<"PROGRAM"')]
    if r.ok and len(cases) < 20000:
        raise MachineryError("only %d cases emitted" % len(cases))
    sc = UO.scales(rep)
    systems = [("µm", "s", "molecule")] + [(rng.choice(list(sc["space"])), rng.choice(list(sc["time"])), rng.choice(list(sc["quantity"]))) for _ in range(6)]
    if tier == "quick" and len(cases) > 25000:
        cases = rng.sample(cases, 25000)
    for c in cases:
        with rep.guard("coarse", {"shape": c["shape"], "env": c["env"], "map": c["map"]}):
            check_case(rep, c, rng, systems)
        if len(rep.violations) > 40:
            break
    invalid_by_form(rep, rng)
    identity_simulation(rep, rng, 12 if tier == "quick" else 100)
    rep.traces = len(cases)
    rep.extra["valid_maps"] = sum(1 for c in cases if c["valid"])
    rep.sample([c for c in cases if c["valid"] and len(c["edges"]) > 1][3])
    if selftest:
        import copy
        probe = Report("C16-selftest", "quick")
        bad = copy.deepcopy([c for c in cases if c["valid"] and c["edges"]][7])
        bad["edges"][0]["faces"] += 1
        check_case(probe, bad, rng, systems)
        rep.selftest("wrong expected face count is noticed", len(probe.violations) == 1)
    return rep.finish()


def replay(rp):
    return run("quick")
