"""C01 - Deterministic rate law: mass-action reactions plus Bernstein diffusion."""
import random
from fractions import Fraction as Fr

from .. import rd_eval, rd_law, rd_model
from ..vlib import util
from ..vlib.report import MachineryError, Report

PROP = "C01"
AMOUNTS = [Fr(0), Fr(1), Fr(2), Fr(3), Fr(1, 2), Fr(3, 2), Fr(4), Fr(1, 4)]


def cases(rng, n, **kw):
    out = []
    for _ in range(n):
        m = rd_model.random_model(rng, max_order=4, **kw)
        st = [[rng.choice(AMOUNTS) for _ in range(m.ncells())] for _ in m.species]
        out.append((m, st))
    return out


def run(tier, selftest=False, only=None):
    rep = Report(PROP, tier)
    rep.rule = ("cases = seeded random models (1-3 species; reactions of order 0..4 on either side incl. empty sides and "
                "repeated species; per-environment constants / diffusion coefficients with 'default' fallbacks and zeros; "
                "grids <= 4 cells with all boundary modes, graphs with heterogeneous volumes, surfaces, distances; any "
                "chemostat map) x a random state of small rationals. TLC evaluates the law exactly in two shapes "
                "(declarative FLaw, engine-shaped FEngine) and checks they agree; the harness compares "
                "compute_dstatedt (with and without chemostats), make_dxdtf (1-cell systems) and one Euler step with the "
                "exact value. distinct = distinct (model, state); non-trivial = some term of the law is non-zero")
    rep.assumptions = [
        "inputs are exactly representable (small rationals, integer cell edges) so the exact value and the binary64 value "
        "differ by rounding only; tolerance 1e-9 x (sum of |terms|) computed by the specification",
        "Python kinetics functions resolve one edge per node pair: multigraphs / self-loops are replayed against the Euler engine only",
    ]
    seed = util.seed()
    rng = random.Random(seed * 9176 + 1)
    n = 400 if tier == "quick" else 6000
    cs = cases(rng, n)
    cs += [(m, st) for m, st in cases(rng, n // 8, max_cells=1)]          # make_dxdtf needs size-1 systems
    # sizes beyond the small ones: many reaction channels, 4-5 species, 18-36 cells or 10-20 nodes of uneven degree
    for _ in range(6 if tier == "quick" else 40):
        m = rd_model.large_model(rng)
        cs.append((m, [[rng.choice(AMOUNTS) for _ in range(m.ncells())] for _ in m.species]))
    rd_law.model_check(rep, cs, "C01")
    spec = rd_eval.evaluate("flaw", rd_law.spec_items(cs), rep)
    impl = rd_law.impl_values(cs)
    rd_law.compare(rep, cs, spec, impl, "rate-law")
    # multigraphs: engine only
    mg = [(m, st) for m, st in cases(rng, n // 8, graph=True, multigraph=True)]
    spec = rd_eval.evaluate("flaw", rd_law.spec_items(mg), rep)
    impl = rd_law.impl_values(mg, want=("euler",))
    rd_law.compare(rep, mg, spec, impl, "rate-law-multigraph")
    rep.traces = len(cs) + len(mg)
    rep.extra["cases"] = len(cs) + len(mg)
    if selftest:
        self_test(rep)
    return rep.finish()


def self_test(rep):
    """A perturbed expected value must be rejected by the comparison."""
    rng = random.Random(5)
    cs = [c for c in cases(rng, 30) if c[0].reactions][:5]
    spec = rd_eval.evaluate("flaw", rd_law.spec_items(cs))
    impl = rd_law.impl_values(cs, want=("kin",))
    probe = Report("C01-selftest", "quick")
    for sp in spec:
        for i in range(len(sp[0]["law"])):
            for s in range(len(sp[0]["law"][i])):
                a = sp[0]["law"][i][s]
                sp[0]["law"][i][s] = [a[0] * 3 + a[1], a[1] * 2]
    rd_law.compare(probe, cs, spec, impl, "selftest")
    rep.selftest("expected values perturbed", len(probe.violations) > 0)


def replay(rp):
    print("replay: re-running the quick check (cases are regenerated from the seed)")
    return run("quick")
