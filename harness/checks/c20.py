"""C20 - Invalid input is rejected, never silently accepted."""
import json
import random

import numpy as np

from ..vlib import build, tlc, util
from ..vlib.report import MachineryError, Report

util.ensure_repo_importable()
import strengths  # noqa: E402
from strengths import (RDGraphSpace, RDGraphSpaceEdge, RDGraphSpaceNode, RDGridSpace, RDNetwork, RDScript, RDSystem, RDTrajectory,
                       Reaction, Species, UnitArray, UnitValue, Units, UnitsSystem, kinetics)  # noqa: E402
from strengths.units import UnitsDimensions, unitssystem_from_dict  # noqa: E402
from strengths.rdnetwork import reaction_from_dict, species_from_dict, rdnetwork_from_dict  # noqa: E402
from strengths.rdgraphspace import rdgraphspaceedge_from_dict, rdgraphspacenode_from_dict  # noqa: E402
from strengths.rdspace import rdspace_from_dict  # noqa: E402
from strengths.rdsystem import rdsystem_from_dict  # noqa: E402
from strengths.rdscript import rdscript_from_dict  # noqa: E402
from strengths.coarsegrain import coarsegrain_system  # noqa: E402

PROP = "C20"


class P:
    def __init__(self, x=0, y=0, z=0):
        self.x, self.y, self.z = x, y, z


NET = {"species": [{"label": "A"}, {"label": "B"}], "reactions": [{"eq": "A -> B", "k+": 1}], "environments": ["a"]}
SYS = {"network": NET, "space": {"w": 2}}
VALUES = {
    "script": {"system": SYS, "t_sample": [0, 1], "time_step": 0.1, "t_max": 1.0, "sampling_policy": "on_t_sample", "sampling_interval": 1,
               "rng_seed": 3, "init_state_processing": "auto", "units": "default"},
    "system": {"network": NET, "space": {"w": 2}, "state": [1, 1, 1, 1], "chemostats": [0, 0, 0, 0], "units": "default"},
    "network": {"species": [{"label": "A"}], "reactions": [], "environments": ["a"], "units": "default"},
    "species": {"label": "A", "D": 1.0, "density": 1.0, "chstt": False, "units": "default"},
    "reaction": {"stoichiometry": "A -> B", "label": "r", "k+": 1.0, "k-": 0.5, "units": "default"},
    "grid": {"type": "grid", "w": 2, "h": 1, "d": 1, "cell_env": 0, "cell_volume": 1.0, "boundary_conditions": {"x": "reflecting"}, "units": "default"},
    "graph": {"type": "graph", "nodes": [{}, {}], "edges": [{"nodes": [0, 1]}], "units": "default"},
    "node": {"volume": 1.0, "environment": 0, "units": "default"},
    "edge": {"nodes": [0, 1], "surface": 1.0, "distance": 1.0, "units": "default"},
    "unitsys": {"space": "m", "time": "s", "quantity": "mol"},
}
BUILDERS = {"script": rdscript_from_dict, "system": rdsystem_from_dict, "network": rdnetwork_from_dict, "species": species_from_dict,
            "reaction": reaction_from_dict, "grid": rdspace_from_dict, "graph": rdspace_from_dict, "node": rdgraphspacenode_from_dict,
            "edge": rdgraphspaceedge_from_dict, "unitsys": unitssystem_from_dict}


def raises(fn):
    try:
        fn()
        return False, None
    except Exception as e:  # noqa
        return True, repr(e)[:120]


def key_case(rep, c, keys):
    kind = c["kind"]
    d = {}
    for name in c["names"]:
        canon = None
        for g in keys[kind]:
            if name in g:
                canon = g[0]
        d[name] = VALUES[kind].get(canon, 1)
    return lambda: BUILDERS[kind](json.loads(json.dumps(d))), {"kind": kind, "dict_keys": c["names"], "note": c["note"]}


def net2():
    return RDNetwork(species=[Species("A", D=1.0), Species("B")], reactions=[Reaction("A -> B", kf=1.0, label="r")])


def dim_case(rep, c):
    f, dim = c["field"], c["dim"]
    # zero is a legitimate magnitude for these fields: a zero of the wrong dimension is as wrong as any other value
    zero_ok = f in ("density", "D", "k0", "k1", "k2", "k3", "state")
    val = 0.0 if zero_ok and (sum(dim) + len(f)) % 2 == 0 else 1.0
    q = UnitValue(val, Units(UnitsSystem(), UnitsDimensions(*dim)))
    arr = UnitArray([0.0, 1.0], Units(UnitsSystem(), UnitsDimensions(*dim)))
    system = lambda: RDSystem(network=net2(), space=RDGridSpace(w=2))
    other = UnitsSystem(space="nm", time="ms", quantity="mol")
    q2 = UnitValue(val, Units(other, UnitsDimensions(*dim)))        # the same wrong (or right) dimension, in another unit system
    right_t = UnitValue(0.5, "s")
    right_x = UnitValue(2.0, "molecule")
    table = {
        "density": [lambda: Species("A", density=q), lambda: Species("A", density={"a": q}), lambda: Species("A", density=str(q))],
        "D": [lambda: Species("A", D=q), lambda: Species("A", D={"default": q})],
        "k0": [lambda: Reaction(" -> A", kf=q), lambda: Reaction("A -> ", kr=q)],
        "k1": [lambda: Reaction("A -> B", kf=q), lambda: Reaction("A -> B", kr={"a": q})],
        "k2": [lambda: Reaction("A + B -> C", kf=q), lambda: Reaction("C -> 2 A", kr=q)],
        "k3": [lambda: Reaction("2 A + B -> C", kf=q)],
        "cell_volume": [lambda: RDGridSpace(cell_vol=q), lambda: rdspace_from_dict({"cell_volume": str(q)})],
        "node_volume": [lambda: RDGraphSpaceNode(volume=q)],
        "edge_surface": [lambda: RDGraphSpaceEdge(0, 1, surface=q)],
        "edge_distance": [lambda: RDGraphSpaceEdge(0, 1, distance=q)],
        "time_step": [lambda: RDScript(system(), [0, 1], time_step=q)],
        "t_max": [lambda: RDScript(system(), [0, 1], t_max=q)],
        "sampling_interval": [lambda: RDScript(system(), [0, 1], sampling_interval=q)],
        # arrays are also given item by item: every item must have the field's dimension, whatever system it is written in
        "t_sample": [lambda: RDScript(system(), arr), lambda: RDScript(system(), [right_t, q]), lambda: RDScript(system(), [q2, right_t]),
                     lambda: UnitArray([0.0, q], "s"), lambda: UnitArray([q2, right_t], Units(UnitsSystem(), UnitsDimensions(0, 1, 0))),
                     lambda: RDScript(system(), [0.0, 1.0], units_system=other).__setattr__("t_sample", [q2, UnitValue(1.0, "ms")])],
        "state": [lambda: RDSystem(network=net2(), space=RDGridSpace(w=1), state=arr),
                  lambda: system().set_state("A", 0, q),
                  lambda: RDSystem(network=net2(), space=RDGridSpace(w=1), state=[right_x, q]),
                  lambda: RDSystem(network=net2(), space=RDGridSpace(w=1), state=[q2, right_x]),
                  lambda: UnitArray([q, right_x], "molecule")],
    }
    return table[f], {"field": f, "dimension": dim, "value": val}


def position_case(rep, c):
    w, h, d = c["shape"]
    form, pos = c["form"], c["pos"]
    if form == "node":
        space = RDGraphSpace(nodes=[RDGraphSpaceNode() for _ in range(w)], edges=[])
        p = pos[0]
    else:
        space = RDGridSpace(w=w, h=h, d=d)
        p = pos[0] if form == "index" else (tuple(pos) if form == "tuple" else P(*pos))
    n = space.size()
    system = RDSystem(network=net2(), space=space, state=UnitArray(np.arange(2 * n, dtype=float), "molecule"))
    traj = RDTrajectory(data=UnitArray(np.arange(4 * n, dtype=float), "molecule"), t_sample=UnitArray([0.0, 1.0], "s"), system=system)
    before = system.state.value.tobytes(), system.chemostats.tobytes()
    calls = {
        "space.get_cell_index": lambda: space.get_cell_index(p),
        "space.get_cell_env": lambda: space.get_cell_env(p),
        "system.get_state_index": lambda: system.get_state_index(1, p),
        "system.get_state": lambda: system.get_state("B", p),
        "system.get_chemostat": lambda: system.get_chemostat(0, p),
        "system.set_state": lambda: system.set_state(1, p, 7.0),
        "system.set_chemostat": lambda: system.set_chemostat(1, p, 1),
        "system.apply_reaction": lambda: system.apply_reaction("r", position=p),
        "trajectory.get_trajectory_point": lambda: traj.get_trajectory_point(1, 1, p),
        "trajectory.get_trajectory": lambda: traj.get_trajectory(0, position=p),
        "kinetics.compute_reaction_rates": lambda: kinetics.compute_reaction_rates(system, "r", position=p),
        "kinetics.compute_dspeciesdt": lambda: kinetics.compute_dspeciesdt(system, 0, position=p),
    }
    if form in ("index", "tuple", "object"):
        calls["space.get_cell_coordinates"] = (lambda: space.get_cell_coordinates(p)) if form == "index" else None
    return {k: v for k, v in calls.items() if v}, system, before, {"shape": c["shape"], "form": form, "position": pos}


def other_case(c):
    cl = c["class"]
    if cl == "grid-size":
        return [lambda: RDGridSpace(w=c["w"], h=c["h"], d=c["d"]), lambda: rdspace_from_dict({"w": c["w"], "h": c["h"], "d": c["d"]})], dict(c)
    if cl == "environment-map-length":
        return [lambda: RDGridSpace(w=c["size"], cell_env=[0] * c["len"])], dict(c)
    if cl == "environment-index":
        net = RDNetwork(species=[Species("A", density=1.0)], reactions=[], environments=["e%d" % k for k in range(c["nenv"])])
        sp = lambda: RDGridSpace(w=2, cell_env=[0, c["index"]])
        gsp = lambda: RDGraphSpace(nodes=[RDGraphSpaceNode(), RDGraphSpaceNode(environment=c["index"])], edges=[])
        if c["explicit"]:
            return [lambda: RDSystem(network=net, space=sp(), state=[1.0, 1.0], chemostats=[0, 0]),
                    lambda: RDSystem(network=net, space=gsp(), state=[1.0, 1.0], chemostats=[0, 0])], dict(c)
        return [lambda: RDSystem(network=net, space=sp()), lambda: RDSystem(network=net, space=gsp())], dict(c)
    if cl == "species-ref":
        net = RDNetwork(species=[Species("A"), Species("B"), Species("C")], reactions=[])
        system = RDSystem(network=net, space=RDGridSpace(w=2))
        traj = RDTrajectory(data=UnitArray(np.arange(12, dtype=float), "molecule"), t_sample=UnitArray([0.0, 1.0], "s"), system=system)
        i = c["index"]
        return [lambda: system.get_state_index(i, 0), lambda: system.get_state(i, 0), lambda: system.set_state(i, 1, 2.0),
                lambda: traj.get_state(i, 0), lambda: traj.get_trajectory(i), lambda: traj.get_trajectory_point(i, 0, 0),
                lambda: kinetics.compute_dspeciesdt(system, i, 0)], dict(c)
    raise ValueError(cl)


def enum_cases():
    """finite vocabularies: every documented value is accepted, anything else refused"""
    system = lambda: RDSystem(network=net2(), space=RDGridSpace(w=2))
    out = []
    from strengths import simulate

    def setter(obj, attr, v):
        setattr(obj, attr, v)

    script_dict = lambda **kw: dict({"system": {"network": {"species": [{"label": "A"}], "reactions": []}, "space": {"w": 2}},
                                     "t_sample": [0, 1]}, **kw)
    # every entry point through which the value can arrive: constructor, setter / set_ method, dictionary reader, simulate()
    for v, ok in [("reflecting", True), ("periodical", True), ("periodic", False), ("", False), ("Reflecting", False), (1, False), (None, False)]:
        for ax in ("x", "y", "z"):
            out.append(("boundary-condition", [ax, v], ok, lambda v=v, ax=ax: RDGridSpace(w=2, boundary_conditions={ax: v})))
            out.append(("boundary-condition(set)", [ax, v], ok, lambda v=v, ax=ax: RDGridSpace(w=2).set_boundary_conditions({ax: v})))
            out.append(("boundary-condition(dict)", [ax, v], ok, lambda v=v, ax=ax: rdspace_from_dict({"w": 2, "boundary_conditions": {ax: v}})))
            out.append(("boundary-condition(system dict)", [ax, v], ok, lambda v=v, ax=ax: rdsystem_from_dict(
                {"network": {"species": [{"label": "A"}], "reactions": []}, "space": {"w": 2, "boundary_conditions": {ax: v}}})))
    for v, ok in [("x", True), ("y", True), ("z", True), ("w", False), ("X", False), ("", False), (0, False)]:
        out.append(("boundary-axis", v, ok, lambda v=v: RDGridSpace(w=2, boundary_conditions={v: "periodical"})))
        out.append(("boundary-axis(set)", v, ok, lambda v=v: RDGridSpace(w=2).set_boundary_conditions({v: "periodical"})))
        out.append(("boundary-axis(dict)", v, ok, lambda v=v: rdspace_from_dict({"w": 2, "boundary_conditions": {v: "reflecting"}})))
    for v, ok in [("on_t_sample", True), ("on_iteration", True), ("on_interval", True), ("no_sampling", True), ("on_sample", False), ("", False),
                  (None, False), ("ON_T_SAMPLE", False), (1, False)]:
        out.append(("sampling-policy", v, ok, lambda v=v: RDScript(system(), [0, 1], sampling_policy=v)))
        out.append(("sampling-policy(setter)", v, ok, lambda v=v: setter(RDScript(system(), [0, 1]), "sampling_policy", v)))
        out.append(("sampling-policy(dict)", v, ok, lambda v=v: rdscript_from_dict(script_dict(sampling_policy=v))))
        out.append(("sampling-policy(simulate)", v, ok, lambda v=v: simulate(system(), [0, 0.01], engine=build.make_engine("euler", lib=build.load("plain")),
                                                                              time_step=0.01, sampling_policy=v)))
    for v, ok in [("auto", True), ("none", True), ("Poisson", True), ("redist", True), ("poisson", False), ("floor", False), ("", False), (0, False),
                  (None, False)]:
        out.append(("init-state-processing", v, ok, lambda v=v: RDScript(system(), [0, 1], init_state_processing=v)))
        out.append(("init-state-processing(setter)", v, ok, lambda v=v: setter(RDScript(system(), [0, 1]), "init_state_processing", v)))
        out.append(("init-state-processing(dict)", v, ok, lambda v=v: rdscript_from_dict(script_dict(init_state_processing=v))))
        out.append(("init-state-processing(simulate)", v, ok, lambda v=v: simulate(system(), [0, 0.01], engine=build.make_engine("euler", lib=build.load("plain")),
                                                                                    time_step=0.01, init_state_processing=v)))
    for v, ok in [("grid", True), ("graph", False), ("mesh", False), ("", False)]:   # 'graph' without nodes/edges is incomplete
        out.append(("space-type", v, ok, lambda v=v: rdspace_from_dict({"type": v})))
    for v, ok in [(["a"], True), (["a", "b"], True), ([""], True), ([], False), (["default"], False), (["a", "default"], False), ("a", False), ([1], False)]:
        out.append(("environments", v, ok, lambda v=v: RDNetwork(species=[Species("A")], reactions=[], environments=v)))
        out.append(("environments(setter)", v, ok, lambda v=v: setter(RDNetwork(species=[Species("A")], reactions=[]), "environments", v)))
        out.append(("environments(dict)", v, ok, lambda v=v: rdnetwork_from_dict({"species": [{"label": "A"}], "reactions": [], "environments": v})))
        out.append(("environments(system dict)", v, ok, lambda v=v: rdsystem_from_dict(
            {"network": {"species": [{"label": "A"}], "reactions": [], "environments": v}, "space": {"w": 1}})))
        out.append(("environments(script dict)", v, ok, lambda v=v: rdscript_from_dict(
            {"system": {"network": {"species": [{"label": "A"}], "reactions": [], "environments": v}}, "t_sample": [0, 1]})))
    for v, ok in [("m", True), ("µm", True), ("um", False), ("meter", False), ("", False), ("L", False)]:
        out.append(("space-unit-symbol", v, ok, lambda v=v: UnitsSystem(space=v)))
    for v, ok in [("molecule", True), ("mol", True), ("M", False), ("molecules", False)]:
        out.append(("quantity-unit-symbol", v, ok, lambda v=v: UnitsSystem(quantity=v)))
    for v, ok in [("1 µm2/s", True), ("1 µm2/parsec", False), ("1 furlong", False), ("1 m-1.5", False)]:
        out.append(("unit-symbol-in-quantity", v, ok, lambda v=v: Species("A", D=v) if "µm2" in v else UnitValue(v)))
    for v, ok in [("A", True), ("A B", False), ("A+", False), ("A\tB", False)]:
        out.append(("species-label", v, ok, lambda v=v: Species(v)))
    net_ab = lambda: RDNetwork(species=[Species("A", D=1.0)], reactions=[], environments=["a", "b"])
    cg = lambda m: coarsegrain_system(RDSystem(network=net_ab(), space=RDGridSpace(w=2, h=2, cell_env=[0, 0, 1, 1])), m)
    for v, ok in [([0, 0, 1, 1], True), ([0, 1, 2, 3], True), ([-1, 0, 1, -1], True), ([0, 0, 0], False), ([0, 0, 2, 2], False),
                  ([0, 1, 1, 0], False), ([0, -2, 1, 1], False), ([-1, -1, -1, -1], False), ([0.0, 0, 1, 1], False)]:
        out.append(("coarse-graining-map", v, ok, lambda v=v: cg(v)))
    # a reaction naming a species the network does not declare, at every position of a list of three reactions, on either
    # side, through the constructor and the dictionary reader; with declared twins
    from strengths import Reaction, rdnetwork_from_dict
    eqs_ok = ["A -> B", "B -> ", " -> A"]
    for pos in range(3):
        for bad, side in (("X -> B", "reactant"), ("A -> X", "product"), ("A + X -> B", "second reactant"), ("A -> A", None)):
            eqs = list(eqs_ok)
            eqs[pos] = bad
            out.append(("reaction-species", [pos, bad], side is None,
                        lambda eqs=eqs: RDNetwork(species=[Species("A"), Species("B")], reactions=[Reaction(e) for e in eqs])))
            out.append(("reaction-species(dict)", [pos, bad], side is None,
                        lambda eqs=eqs: rdnetwork_from_dict({"species": [{"label": "A"}, {"label": "B"}], "reactions": [{"eq": e} for e in eqs]})))
            out.append(("reaction-species(system dict)", [pos, bad], side is None,
                        lambda eqs=eqs: rdsystem_from_dict({"network": {"species": [{"label": "A"}, {"label": "B"}],
                                                                        "reactions": [{"eq": e} for e in eqs]}, "space": {"w": 2}})))
    return out


def coarse_map_cases(rep, tier):
    """'coarse-graining maps that violate their rules': the maps MC_CoarseGrain enumerates for its small grids, validity decided
    by CoarseGrain.ValidMap; every invalid one must be refused by each entry point, the valid twins accepted."""
    import random as _random
    from strengths import simulate
    from strengths.coarsegrain import check_index_map_validity, coarsegrain_grid
    from . import c16
    r = tlc.run("MC_CoarseGrain", timeout=3000, heap="8g")
    rep.add_tlc("MC_CoarseGrain (index maps of small grids, validity by CoarseGrain.ValidMap)", r)
    if not r.ok:
        raise MachineryError("TLC failed on MC_CoarseGrain: %s\n%s" % (r.error, r.tail(20)))
    maps = [json.loads(tlc.unquote_tla_json(l)) for l in r.out.splitlines() if l.startswith('<<"PROGRAM"')]
    rng = _random.Random(util.seed() * 59 + 20)
    invalid = [c for c in maps if not c["valid"]]
    valid = [c for c in maps if c["valid"]]
    if len(invalid) < 500 or len(valid) < 500:
        raise MachineryError("MC_CoarseGrain emitted %d invalid / %d valid maps" % (len(invalid), len(valid)))
    n = 3000 if tier == "quick" else len(invalid)
    lib = build.load("plain")
    stats = {"invalid_maps": 0, "valid_twins": 0, "invalid_with_dropped_cell_first": 0}
    for c in rng.sample(invalid, min(n, len(invalid))) + rng.sample(valid, min(n // 4, len(valid))):
        usys = UnitsSystem()
        system = c16.build_system(c, usys, 1.0)
        imap = [int(v) for v in c["map"]]
        rep.case(["coarse-map", c["shape"], c["env"], imap])
        calls = {"check_index_map_validity": lambda: check_index_map_validity(imap, system.space),
                 "coarsegrain_grid": lambda: coarsegrain_grid(system.space, imap),
                 "coarsegrain_system": lambda: coarsegrain_system(system, imap)}
        if stats["invalid_maps"] % 25 == 0:
            calls["simulate(cgmap=)"] = lambda: simulate(system, [0, 0.01], engine=build.make_engine("euler", lib=lib), time_step=0.005, cgmap=imap)
        bad = [name for name, fn in calls.items() if raises(fn)[0] == c["valid"]]
        if c["valid"]:
            stats["valid_twins"] += 1
        else:
            stats["invalid_maps"] += 1
            if imap and imap[0] == -1:
                stats["invalid_with_dropped_cell_first"] += 1
        if bad:
            kind = "mixes-environments" if (not c["valid"] and len(imap) == len(c["env"]) and all(v >= -1 for v in imap)
                                            and set(range(max(imap) + 1)) <= set(imap)) else "form"
            rep.violation("coarse-graining-map", "invalid:coarse-graining-map:%s" % ("rejected-valid" if c["valid"] else "accepted:" + kind),
                          {"shape": c["shape"], "env": c["env"], "map": imap, "calls": bad})
    # 'a valid index map contains only integers': valid maps with one entry replaced by a fraction, a text or nothing, through
    # every entry point that takes a map (the drivers included)
    from strengths import RDScript, simulate_script
    nonint = 0
    for c in rng.sample(valid, 40 if tier == "quick" else 400):
        system = c16.build_system(c, UnitsSystem(), 1.0)
        base = [int(v) for v in c["map"]]
        k = rng.randrange(len(base))
        for bad_entry in (base[k] + 0.5, base[k] - 0.25 if base[k] >= 0 else -0.5, str(base[k]), None):
            imap = list(base)
            imap[k] = bad_entry
            nonint += 1
            rep.case(["coarse-map-non-integer", c["shape"], c["env"], [repr(v) for v in imap]])
            calls = {"check_index_map_validity": lambda: check_index_map_validity(imap, system.space),
                     "coarsegrain_grid": lambda: coarsegrain_grid(system.space, imap),
                     "coarsegrain_system": lambda: coarsegrain_system(system, imap),
                     "simulate(cgmap=)": lambda: simulate(system, [0, 0.01], engine=build.make_engine("euler", lib=lib), time_step=0.005, cgmap=imap),
                     "simulate_script(cgmap=)": lambda: simulate_script(RDScript(system=system, t_sample=[0, 0.01], time_step=0.005),
                                                                        build.make_engine("euler", lib=lib), cgmap=imap)}
            accepted = [name for name, fn in calls.items() if not raises(fn)[0]]
            if accepted:
                rep.violation("coarse-graining-map", "invalid:coarse-graining-map:accepted:non-integer-entry",
                              {"shape": c["shape"], "env": c["env"], "map": [repr(v) for v in imap], "calls": accepted})
    stats["maps_with_a_non_integer_entry"] = nonint
    rep.extra["coarse_map_cases"] = stats


def run(tier, selftest=False, only=None):
    rep = Report(PROP, tier)
    rep.rule = ("cases are enumerated by MC_Invalid.tla from the complements of the validity predicates of the other modules "
                "(key acceptability of Serialize.tla for ten dictionary kinds: unknown key, two aliases of one key, dropped key; "
                "all 27 neighbouring dimension vectors of 15 dimensioned fields; every position in and around four grids and three "
                "graphs in every form; grid sizes; environment indices and map lengths; species references), each class with valid "
                "twins; TLC decides valid / invalid; the implementation must raise exactly for the invalid ones at every API entry "
                "point listed for the class and leave the object unchanged; plus the finite vocabularies (boundary conditions, axes, "
                "policies, modes, environments, symbols, labels, coarse-graining maps); distinct = distinct cases")
    rep.assumptions = ["'raises' = any exception; the exception type is not part of the property"]
    r = tlc.run("MC_Invalid", timeout=1200, heap="8g")
    rep.add_tlc("MC_Invalid (case enumeration, validity decided by the specification)", r)
    if not r.ok:
        raise MachineryError("TLC failed: %s\n%s" % (r.error, r.tail(20)))
    rep.exhaustive = True
    cases = [json.loads(tlc.unquote_tla_json(l)) for l in r.out.splitlines() if l.startswith('<<"PROGRAM"')]
    rk = tlc.run("MC_Serialize", cfg="Gen_Serialize", timeout=1200, heap="8g")
    keys = [json.loads(tlc.unquote_tla_json(l, prefix='<<"KEYS", "')) for l in rk.out.splitlines() if l.startswith('<<"KEYS"')]
    if len(cases) < 1000 or not keys:
        raise MachineryError("generator emitted %d cases" % len(cases))
    keys = keys[0]
    for item in cases:
        c, valid = item["c"], item["valid"]
        rep.case(c)
        cl = c["class"]
        if cl == "keys":
            fn, tag = key_case(rep, c, keys)
            got, exc = raises(fn)
            if got == valid:
                rep.violation("keys", "invalid:keys:%s:%s" % ("accepted" if not valid else "rejected-valid", c["kind"]), dict(tag, exc=exc))
        elif cl == "dimension":
            fns, tag = dim_case(rep, c)
            for i, fn in enumerate(fns):
                got, exc = raises(fn)
                if got == valid:
                    rep.violation("dimension", "invalid:dimension:%s:%s" % ("accepted" if not valid else "rejected-valid", c["field"]),
                                  dict(tag, variant=i, exc=exc))
                    break
        elif cl == "position":
            calls, system, before, tag = position_case(rep, c)
            bad = []
            for name, fn in calls.items():
                got, exc = raises(fn)
                if got == valid:
                    bad.append(name)
            after = system.state.value.tobytes(), system.chemostats.tobytes()
            if bad:
                rep.violation("position", "invalid:position:%s:%s" % ("accepted" if not valid else "rejected-valid", c["form"]), dict(tag, calls=bad))
            elif not valid and before != after:
                rep.violation("position", "invalid:position:state-changed-by-rejected-call", tag)
        else:
            fns, tag = other_case(c)
            bad = []
            for i, fn in enumerate(fns):
                got, exc = raises(fn)
                if got == valid:
                    bad.append(i)
            if bad:
                extra = ":explicit-state" if c.get("explicit") else ""
                rep.violation(cl, "invalid:%s:%s%s" % (cl, "accepted" if not valid else "rejected-valid", extra), dict(tag, variants=bad))
    for cl, v, ok, fn in enum_cases():
        rep.case(["enum", cl, str(v)])
        got, exc = raises(fn)
        if got == ok:
            rep.violation("vocabulary", "invalid:%s:%s" % (cl, "accepted" if not ok else "rejected-valid"), {"value": v, "exc": exc})
    coarse_map_cases(rep, tier)
    rep.traces = len(cases)
    rep.sample(cases[10])
    rep.sample([c for c in cases if c["c"]["class"] == "position"][40])
    if selftest:
        rep.selftest("an accepting stub is reported as accepting", raises(lambda: 1)[0] is False)
    return rep.finish()


def replay(rp):
    return run("quick")
