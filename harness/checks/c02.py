"""C02 - Every engine conserves every conservation law of the network."""
import random
from fractions import Fraction as Fr
from fractions import Fraction as Fr

from .. import rd_euler, rd_eval, rd_law, rd_model
from ..vlib import util
from ..vlib.report import MachineryError, Report
from . import c07

PROP = "C02"


def run(tier, selftest=False, only=None):
    rep = Report(PROP, tier)
    rep.rule = ("model: every Gillespie event / tau-leap bag (MC_RDStep, all behaviours to a depth over a seeded family) and "
                "every exact Euler step (Eval_RD) keeps every vector of the integer left null space of the stoichiometric "
                "matrix that avoids chemostated species; implementation: Gillespie and tau-leap runs validated state by "
                "state against RDStep.tla with the Conserved clause evaluated by TLC in every recorded state (exact), and "
                "long Euler trajectories on which the laws TLC computed for that network drift by at most 1e-10 x gross "
                "movement; distinct = distinct recorded traces / trajectories; pure-diffusion models make every species a law")
    rep.assumptions = [
        "laws with coefficients in -2..2 (all of them for the generated networks of <= 3 species)",
        "Euler drift tolerance 1e-10 x (initial amounts + total movement) weighted by the law",
    ]
    seed = util.seed()
    sel = lambda n: only is None or n in only
    if sel("model"):
        c07.model_check(rep, tier, seed + 1, label="C02")
        rng = random.Random(seed * 13 + 2)
        cs = []
        for _ in range(150 if tier == "quick" else 1500):
            m = rd_model.random_model(rng)
            cs.append((m, [[rng.choice([Fr(0), Fr(1), Fr(2), Fr(5, 2), Fr(1, 2)]) for _ in range(m.ncells())] for _ in m.species]))
        rd_law.model_check(rep, cs, "C02")
        spec = rd_eval.evaluate("flaw", rd_law.spec_items(cs), rep)
        bad = [i for i, sp in enumerate(spec) if not sp[0]["eulerConserves"]]
        rep.extra["euler_exact_steps_checked"] = len(spec)
        rep.extra["euler_exact_steps_with_laws"] = sum(1 for sp in spec if sp[0]["nlaws"] > 0)
        for i in bad[:3]:
            rep.violation("model", "model:euler-step-breaks-law", {"model": cs[i][0].strengths_dict()})
    if sel("traces"):
        rng = random.Random(seed * 2713 + 22)
        n, it = (200, 150) if tier == "quick" else (3000, 400)
        # no chemostats in half of the models so that laws exist; pure diffusion in a quarter
        jobs, models = c07.jobs_for(rng, n // 2, ["gillespie", "tauleap"], it, chem_p=0.0)
        for j in jobs:
            models[j[0]].chem = None
        c07.trace_check(rep, jobs, models, "no-chemostats")
        jobs, models = c07.jobs_for(rng, n // 4, ["gillespie", "tauleap"], it, max_reactions=0, chem_p=0.0)
        c07.trace_check(rep, jobs, models, "pure-diffusion")
        jobs, models = c07.jobs_for(rng, n // 4, ["gillespie", "tauleap"], it)
        c07.trace_check(rep, jobs, models, "with-chemostats")
        # chemostated species that take part in reactions next to species bound by a law (any position in the species list):
        # the law of the free species must hold while the flagged one is held
        jobs, models = c07.jobs_for(rng, n // 4, ["tauleap", "gillespie", "tauleap"], it, chem_p=0.5, max_species=4, max_reactions=3)
        c07.trace_check(rep, jobs, models, "chemostated-reactants")
        # networks BUILT to have a law among free species that react with a held one, in every order of the species list:
        #   p + c <-> q   (c chemostated; p + q conserved)   and   q -> p + r   (r free; p + q still conserved)
        jobs, models = [], {}
        for i in range(n // 4):
            m = rd_model.random_model(rng, max_species=4, max_reactions=0, chem_p=0.0, graph=(i % 2 == 0))
            labels = [s["label"] for s in m.species]
            while len(labels) < 3:
                lab = [l for l in rd_model.LABELS if l not in labels][0]
                m.species.append({"label": lab, "D": Fr(1)})
                m.state.append([rng.choice([0, 2, 5]) for _ in range(m.ncells())])
                labels.append(lab)
            order = labels[:]
            rng.shuffle(order)
            pl, cl, ql = order[0], order[1], order[2]
            m.reactions = [{"sub": {pl: 1, cl: 1}, "prod": {ql: 1}, "kf": Fr(1), "kr": Fr(1, 2)}]
            if len(order) > 3:
                m.reactions.append({"sub": {ql: 1}, "prod": {pl: 1, order[3]: 1}, "kf": Fr(1, 2)})
            for s in m.species:
                s.pop("chstt", None)
                if s["label"] == cl:
                    s["chstt"] = True
            m.chem = None
            for row, s in zip(m.state, m.species):
                if s["label"] in (pl, cl):
                    for k in range(len(row)):
                        row[k] = max(row[k], 4)
            kind = ("tauleap", "gillespie")[i % 2 if i % 4 else 0]
            jid = "%s%d" % (kind[0], i)
            jobs.append((jid, m, kind, rng.randint(0, 2 ** 31 - 1), it, 0.05))
            models[jid] = m
        c07.trace_check(rep, jobs, models, "law-next-to-a-held-reactant")
    if sel("euler"):
        rng = random.Random(seed * 4409 + 23)
        n, steps = (120, 4000) if tier == "quick" else (1200, 40000)
        ms = []
        for i in range(n):
            m = rd_model.random_model(rng, chem_p=0.0 if i % 3 else 0.25, max_reactions=0 if i % 4 == 0 else 2,
                                      multigraph=(i % 5 == 0), graph=True if i % 5 == 0 else None)
            if i % 3:
                m.chem = None
            ms.append(m)
        laws = rd_eval.evaluate("laws", [dict(m.spec_cfg(), states=[]) for m in ms], rep)
        trs = rd_euler.trajectories(ms, steps)
        nl = 0
        for m, lw, tr in zip(ms, laws, trs):
            rep.case(["euler", m.key()], nontrivial=len(lw["laws"]) > 0)
            if tr[0] != "ok":
                rep.violation("euler", "euler:run-" + tr[0], {"model": m.strengths_dict(), "outcome": list(tr)})
                continue
            res = rd_euler.check_laws(rep, m, tr[1], lw["laws"], "euler")
            if res == "ok" and lw["laws"]:
                nl += 1
        # "all time steps": a step so coarse that amounts overshoot zero is still an explicit Euler step - the update is
        # linear in the rates, so every conservation law holds to rounding whatever the step
        trc = rd_euler.trajectories(ms, 12, dt=0.75, every=1)
        nneg = 0
        for m, lw, tr in zip(ms, laws, trc):
            rep.case(["euler-coarse", m.key()], nontrivial=len(lw["laws"]) > 0)
            if tr[0] != "ok":
                rep.violation("euler", "euler:coarse-step-run-" + tr[0], {"model": m.strengths_dict(), "outcome": list(tr)})
                continue
            if rd_euler.check_laws(rep, m, tr[1], lw["laws"], "euler-coarse-step") == "ok" and (tr[1] < 0).any():
                nneg += 1
        rep.extra["euler_coarse_step_trajectories_with_overshoot"] = nneg
        if nneg == 0:
            raise MachineryError("no coarse-step Euler trajectory overshot zero: the regime was not exercised")
        rep.traces += len(ms)
        rep.extra["euler_trajectories"] = len(ms)
        rep.extra["euler_trajectories_with_laws_ok"] = nl
        rep.sample({"euler_model": ms[1].strengths_dict(), "laws": laws[1]["laws"][:5]})
    if selftest:
        c07.self_test(rep)
    return rep.finish()


def replay(rp):
    print("replay: re-running the quick check (cases are regenerated from the seed)")
    return run("quick")
