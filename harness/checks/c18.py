"""C18 - Unit and quantity text: print-parse round-trip, SI meaning, rejection."""
import json
import math
import os
import random
import struct

from .. import units_oracle as UO
from ..vlib import tlc, util
from ..vlib.report import MachineryError, Report

util.ensure_repo_importable()
from strengths import UnitValue, Units, UnitsSystem  # noqa: E402
from strengths.units import UnitsDimensions, parse_units, parse_unitvalue  # noqa: E402

PROP = "C18"


def spec_eval(rep, texts, units):
    d = util.subdir("eval")
    fin, fout = os.path.join(d, "text_in_%d.json" % os.getpid()), os.path.join(d, "text_out_%d.json" % os.getpid())
    with open(fin, "w") as f:
        json.dump({"texts": [list(t) for t in texts], "units": units}, f, ensure_ascii=False)
    r = tlc.run("Eval_Text", workers=1, env={"IN_FILE": fin, "OUT_FILE": fout}, timeout=1800, heap="6g")
    rep.add_tlc("Eval_Text", r, note="operator evaluation (ASSUME), no state graph")
    if "EVAL-DONE" not in r.out:
        raise MachineryError("TLC text evaluation failed: %s\n%s" % (r.error, r.tail(20)))
    return json.load(open(fout))


def impl_units(text):
    """('ok', sys, dim) or ('err', exc)"""
    try:
        u = parse_units(text)
    except Exception as e:  # noqa
        return ("err", repr(e)[:120])
    r1 = ("ok", (u.sys["space"], u.sys["time"], u.sys["quantity"]), (u.dim["space"], u.dim["time"], u.dim["quantity"]))
    # the reading of a text is a function of the text: what a caller does with the returned object (it is mutable through
    # its public setters) must not change what the next reading of the same text gives
    try:
        u.dim["space"] = u.dim["space"] + 1
        u.dim["time"] = u.dim["time"] - 2
        u.sys["space"] = "km" if u.sys["space"] != "km" else "nm"
        u.sys["quantity"] = "kmol" if u.sys["quantity"] != "kmol" else "mol"
    except Exception:  # noqa
        pass
    try:
        u2 = parse_units(text)
        r2 = ("ok", (u2.sys["space"], u2.sys["time"], u2.sys["quantity"]), (u2.dim["space"], u2.dim["time"], u2.dim["quantity"]))
    except Exception as e:  # noqa
        r2 = ("err", repr(e)[:120])
    if r2 != r1:
        return ("unstable", r1, r2)
    return r1


def same(spec, impl):
    if not spec["ok"]:
        return impl[0] == "err"
    if impl[0] != "ok":
        return False
    if list(impl[2]) != list(spec["dim"]):
        return False
    for k, name in enumerate(("sp", "ti", "qu")):
        if spec["dim"][k] != 0 and impl[1][k] != spec[name]:
            return False
    return True


def classify(text):
    if " " in text.strip():
        return "embedded-blank"
    if "_" in text:
        return "underscore"
    if "+" in text:
        return "plus"
    if ".." in text or "//" in text or "./" in text or "/." in text:
        return "doubled-separator"
    if text.strip()[:1] in "./" or text.strip()[-1:] in "./":
        return "dangling-separator"
    return "other"


WELL = ["m", "µm2", "s-1", "mol.L-1", "µm2/s", "molecule.µm-3", "M", "nL", "km.h-1", "mmol/mL", "fM.min-1", "dmm3", "cs", "pmol"]


def mutations(rng, base):
    out = set()
    for t in base:
        for i in range(len(t) + 1):
            out.add(t[:i] + " " + t[i:])                  # blank at each position
        for i in range(len(t)):
            out.add(t[:i] + "x" + t[i + 1:])              # unknown symbol
            out.add(t[:i] + t[i + 1:])                    # dropped character
            if t[i] in "./":
                out.add(t[:i] + t[i] + t[i:])             # doubled separator
                out.add(t[:i] + "./"[t[i] == "."] + t[i + 1:] + "")
        out.update({t + ".", t + "/", "." + t, "/" + t, t + "+2", t + "1.5", "2" + t, t + "2s", t + "--2", t + "-", t + "1_0",
                    t + "2 ", t + "2 .s", t + " 2", t + ".m.cm", t + ".s.min", t + ".mol.molecule", t + ".L.m", t + ".L.dm",
                    t + "²", t.upper(), t + "^2", t + "**2", t + "e2", "(" + t + ")", t + ".1", t + "0", t + "-0", t + "+"})
    return sorted(out)


def run(tier, selftest=False, only=None):
    rep = Report(PROP, tier)
    rep.rule = ("model: all unit expressions with one or two factors over the 47 symbols x explicit exponents x both "
                "separators (machine = grammar, both micro spellings, a/b = a.b-1, order irrelevant, Parse(Print(u)) = u), "
                "checked by TLC; implementation: every one of those texts (both spellings) parsed by parse_units and compared "
                "with the meaning TLC computed; a mutation family (blank / unknown character / dropped character at every "
                "position, doubled and dangling separators, signed / fractional / misplaced exponents, conflicting base "
                "units, ...) classified by TLC's machine and grammar, the implementation must raise exactly where the "
                "specification rejects; printed forms; quantity text round trip on random bit-pattern doubles; "
                "distinct = distinct texts; non-trivial = all")
    rep.assumptions = ["the value half of the round trip (str(float) -> float) is exercised with random doubles attached to "
                       "spec-generated units; text is ASCII plus the micro sign"]
    seed = util.seed()
    rng = random.Random(seed * 23 + 18)
    cfg = "Gen_UnitText"
    if tier == "thorough":
        tlc.write_cfg("Gen_UnitText_full", open(tlc.workdir() + "/Gen_UnitText.cfg").read().replace("ExpQuick", "ExpFull"))
        cfg = "Gen_UnitText_full"
    r = tlc.run("MC_UnitText", cfg=cfg, timeout=3000, heap="12g")
    rep.add_tlc("MC_UnitText (all 1-2 factor expressions; every case emitted)", r)
    if not r.ok:
        if r.violated:
            rep.violation("model", "model:unittext:" + r.violated, {"tlc": r.tail(60)})
        else:
            raise MachineryError("TLC failed: %s\n%s" % (r.error, r.tail(20)))
    rep.exhaustive = True
    cases = [json.loads(tlc.unquote_tla_json(l)) for l in r.out.splitlines() if l.startswith('<<"PROGRAM"')]
    if r.ok and len(cases) < 100000:
        raise MachineryError("only %d expression cases emitted" % len(cases))
    nbad = 0
    for c in cases:
        for key in ("t", "u", "mixed"):
            if key == "mixed":
                # each factor may use either spelling of the micro prefix, independently of the others
                t0 = "".join(c["t"])
                if t0.count("µ") < 2:
                    continue
                text = t0.replace("µ", "u", 1) if len(t0) % 2 else "u".join(t0.rsplit("µ", 1))
            else:
                text = "".join(c[key])
            rep.case(text)
            if not same(c["m"], impl_units(text)):
                nbad += 1
                if nbad <= 40:
                    rep.violation("expressions", "text:meaning:" + ("ok-expected" if c["m"]["ok"] else "reject-expected"),
                                  {"text": text, "spec": c["m"], "impl": impl_units(text)})
    rep.sample({"text": "".join(cases[len(cases) // 3]["t"]), "spec": cases[len(cases) // 3]["m"]})
    # three factors, seeded
    syms = list(UO.scales(rep)["space"]) + list(UO.scales()["time"]) + list(UO.scales()["quantity"]) + \
        list(UO.scales()["volume"]) + list(UO.scales()["density"])
    three = set()
    for _ in range(3000 if tier == "quick" else 60000):
        parts = []
        for k in range(3):
            f = rng.choice(syms)
            e = rng.choice([None, None, 2, 3, -1, -2, 9, -9, 1, 0])
            parts.append(f + ("" if e is None else str(e)))
        three.add(parts[0] + rng.choice("./") + parts[1] + rng.choice("./") + parts[2])
    muts = mutations(rng, WELL + rng.sample(sorted(three), 30))
    texts = sorted(three) + muts
    # printing: random units
    sc = UO.scales()
    units = []
    for _ in range(400 if tier == "quick" else 5000):
        units.append({"sys": [rng.choice(list(sc["space"])), rng.choice(list(sc["time"])), rng.choice(list(sc["quantity"]))],
                      "dim": [rng.randint(-9, 9) if rng.random() < 0.8 else 0 for _ in range(3)]})
    ev = spec_eval(rep, texts, units)
    for text, sp in zip(texts, ev["texts"]):
        rep.case(text)
        im = impl_units(text)
        if im[0] == "unstable":
            rep.violation("texts", "text:reading-depends-on-what-was-done-with-an-earlier-result", {"text": text, "first": im[1], "second": im[2]})
        elif not same(sp, im):
            rep.violation("texts", "text:%s:%s" % ("accepted-malformed" if not sp["ok"] else "meaning", classify(text)),
                          {"text": text, "spec": sp, "impl": im, "in_grammar": sp["rec"]})
    rep.extra["three_factor_texts"] = len(three)
    rep.extra["mutated_texts"] = len(muts)
    rep.extra["mutated_rejected_by_spec"] = sum(1 for t, sp in zip(texts, ev["texts"]) if t in set(muts) and not sp["ok"])
    for u, pr in zip(units, ev["prints"]):
        want = "".join(pr)
        uo = Units(UnitsSystem(*u["sys"]), UnitsDimensions(*u["dim"]))
        got = str(uo)
        rep.case(["print", u])
        if got != want:
            rep.violation("print", "text:print", {"units": u, "got": got, "spec": want})
            continue
        back = parse_units(got)
        if not (back == uo):
            rep.violation("print", "text:print-parse", {"units": u, "text": got})
        # quantity round trip with a random finite double
        bits = rng.getrandbits(64)
        v = struct.unpack("<d", struct.pack("<Q", bits))[0]
        if not math.isfinite(v):
            continue
        q = UnitValue(v, uo)
        s = str(q)
        for fn in (parse_unitvalue, UnitValue):
            try:
                back = fn(s)
            except Exception as e:  # noqa
                rep.violation("print", "text:printed-quantity-rejected", {"value": repr(v), "text": s, "via": fn.__name__, "exc": repr(e)[:160]})
                break
            if struct.pack("<d", back.value) != struct.pack("<d", v) or not (back.units == uo):
                rep.violation("print", "text:quantity-round-trip", {"value": repr(v), "text": s, "back": repr(back.value)})
    # quantity text: value and unit
    good = [("1 m", 1.0), ("2.5e-3 µm2/s", 2.5e-3), ("  7 s ", 7.0), ("3", 3.0), ("-1e5 mol.L-1", -1e5), ("", 0.0)]
    for s, v in good:
        rep.case(["qty", s])
        try:
            q = parse_unitvalue(s)
            if q.value != v:
                rep.violation("quantity", "text:quantity-value", {"text": s, "got": q.value})
        except Exception as e:  # noqa
            rep.violation("quantity", "text:quantity-rejected", {"text": s, "exc": repr(e)})
    bad = ["1µm", "1m", "abc m", "m", "1,5 m", "1 µm .s", "1 m 2", "1 2 m", "one s", "1  µm2 / s", "1 m s", "2 µm .s-1"]
    for s in bad:
        rep.case(["qty-bad", s])
        for fn in (parse_unitvalue, UnitValue):
            try:
                q = fn(s)
                rep.violation("quantity", "text:quantity-accepted-malformed:" + ("blank-separated-unit" if len(s.split()) > 2 else "other"),
                              {"text": s, "read_as": str(q), "via": fn.__name__})
            except Exception:
                pass
    rep.traces = rep.evaluations
    if selftest:
        probe = {"ok": True, "sp": "m", "ti": "", "qu": "", "dim": [2, 0, 0]}
        rep.selftest("wrong expected exponent is noticed", not same(probe, impl_units("m3")))
        rep.selftest("accepted text where rejection is expected is noticed", not same({"ok": False}, impl_units("m")))
    return rep.finish()


def replay(rp):
    return run("quick")
