"""C08 - A trajectory is a pure function of script, engine kind and seed."""
import random

import numpy as np

from .. import engine_hist as H
from .. import engine_rec, engine_val
from ..vlib import build, tlc, util
from ..vlib.report import MachineryError, Report

PROP = "C08"

SCRIPTS = [
    dict(system="decay", dt=0.125, ts=[0, 0.3, 0.3, 0.9], policy="on_t_sample"),
    dict(system="birth", dt=0.1, ts=[0.55], policy="on_iteration"),
    dict(system="rev", dt=0.05, ts=[0.2, 0.6], policy="on_interval", interval=0.12),
    dict(system="decay", dt=0.25, ts=[1.0], policy="no_sampling"),
    dict(system="rev", dt=0.2, ts=[0.1, 0.5, 1.1], tmax=1.7, policy="on_t_sample"),
    dict(system="big", dt=0.25, ts=[0, 0.5, 1.0], policy="on_t_sample"),
    dict(system="decay", dt=125.0, ts=[0, 300.0, 900.0], policy="on_t_sample", units={"quantity": "µmol", "time": "ms"}),
    # amounts so small that they decay into sub-normal numbers (below 2.2e-308) within a few steps: bit-identical means
    # bit-identical there too, however the loop is driven (iterate, iterate_n, run slices)
    dict(system="decay", dt=0.5, ts=[0, 3.0, 6.0, 9.0, 12.0], policy="on_t_sample", state=[1e-305, 3e-306, 0.0, 1e-300]),
]
# gillespie: event-scale horizons so that runs stay within the reference window
SCRIPTS_G = [
    dict(system="decay", dt=0.125, ts=[0, 0.01, 0.01, 0.05], policy="on_t_sample"),
    dict(system="birth", dt=0.1, ts=[0.25], policy="on_iteration"),
    dict(system="rev", dt=0.05, ts=[0.02, 0.04], policy="on_interval", interval=0.005),
    dict(system="decay", dt=0.25, ts=[0.1], policy="no_sampling"),
    dict(system="rev", dt=0.2, ts=[0.01, 0.03, 0.05], tmax=0.06, policy="on_t_sample"),
    dict(system="big", dt=0.25, ts=[0, 0.5, 1.0], policy="on_t_sample"),
    dict(system="decay", dt=125.0, ts=[0, 10.0, 50.0], policy="on_t_sample", units={"quantity": "µmol", "time": "ms"}),
]


def model_check(rep, tier):
    text = open(tlc.workdir() + "/MC_EngineSchedule.cfg").read()
    if tier == "thorough":
        text = text.replace("MaxK = 3", "MaxK = 5").replace("MaxDepth = 9", "MaxDepth = 12")
    tlc.write_cfg("MC_EngineSchedule_run", text)
    r = tlc.run("MC_EngineSchedule", cfg="MC_EngineSchedule_run", coverage=True, timeout=1800)
    rep.add_tlc("MC_EngineSchedule", r)
    if not r.ok:
        if r.violated:
            rep.violation("model", "model:schedule:" + r.violated, {"tlc": r.tail(60)})
        else:
            raise MachineryError("TLC failed: %s\n%s" % (r.error, r.tail(20)))
    cov = r.coverage()
    for a in ("Iterate", "IterateN", "Run", "GetOutput"):
        if cov.get(a, (0, 0))[1] == 0:
            raise MachineryError("vacuous model run: %s never taken" % a)
    # a mechanism whose observers advance the run must be rejected
    d = tlc.mutant_dir("obs_advances", "Engine",
                       [("GetProgress(e) ==                           \\* 100*t/t_max if t_max > 0 else 0; reported as the pair <<t, tmax>>\n  /\\ ~undef /\\ has[e] /\\ Live(e)\n  /\\ UNCHANGED core",
                         "GetProgress(e) ==\n  /\\ ~undef /\\ has[e] /\\ Live(e)\n  /\\ UNCHANGED <<unf, has, undef>> /\\ alg' = [alg EXCEPT ![Own(e)] = CHOOSE b \\in Iter1Set(@) : TRUE]")])
    m = tlc.run("MC_EngineSchedule", wd=d, timeout=600)
    rep.selftest("spec-mutant observer-advances", m.violated in ("OnlyIterationsAdvance", "ObserversReadOnly"),
                 "violated=%s" % m.violated)


def schedule(rng, two_prev):
    """One history: optional earlier simulations, then the script under test driven by a random schedule."""
    calls = []
    # earlier simulations in the same process, possibly on another engine object, finalized or not
    nprev = rng.choice([0, 0, 1, 2])
    for _ in range(nprev):
        obj = rng.choice(["e1", "e2"]) if two_prev else "e1"
        calls.append(["setup", obj, rng.choice(["P0", "P1", "X"])])      # possibly the very script under test, same object
        for _ in range(rng.randint(0, 6)):
            calls.append(rng.choice([["iterate", obj], ["iterate_n", obj, 3], ["sample", obj], ["get_output", obj]]))
        if rng.random() < 0.6:
            calls.append(["finalize", obj])
    calls.append(["setup", "e1", "X"])
    for _ in range(rng.randint(1, 25)):
        r = rng.random()
        if r < 0.35:
            calls.append(["iterate", "e1"])
        elif r < 0.6:
            calls.append(["iterate_n", "e1", rng.choice([1, 2, 3, 7, 20])])
        elif r < 0.75:
            calls.append(["run", "e1", rng.choice([0, 0, 1, 5])])
        elif r < 0.85:
            calls.append(["get_progress", "e1"])
        elif r < 0.92:
            calls.append(["is_complete", "e1"])
        else:
            calls.append(["get_output", "e1"])
    calls += [["iterate_n", "e1", 1000], ["is_complete", "e1"], ["get_output", "e1"], ["finalize", "e1"]]
    return calls


def histories(tier, seed):
    rng = random.Random(seed * 31337 + 8)
    out = []
    per = 20 if tier == "quick" else 150
    n = 0
    for kind in H.KINDS:
        scripts = SCRIPTS_G if kind == "gillespie" else SCRIPTS
        for si, sc in enumerate(scripts):
            for space in ("grid", "graph"):
                for j in range(per):
                    two = (j % 3 == 2)
                    x = dict(sc, space=space, seed=seed * 100 + si + 1)
                    p0 = dict(scripts[(si + 1) % len(scripts)], seed=77)
                    if j % 4 == 1:
                        # the earlier simulation ran on a grid of the SAME dimensions with other boundary conditions (or the
                        # script under test does): nothing computed for one set-up may serve the next
                        p0 = dict(sc, space="grid", seed=77, bc="x")
                    elif j % 4 == 3 and space == "grid":
                        x = dict(x, bc="x")
                        p0 = dict(sc, space="grid", seed=77)
                    elif j % 4 == 2:
                        # the earlier simulation is the script under test with ONE parameter changed (same space type): anything
                        # kept from one simulation to the next under a key that leaves that parameter out would be reused wrongly
                        which = rng.choice(["interval", "dt", "ts", "policy", "system"])
                        p0 = dict(sc, space=space, seed=77)
                        if which == "interval":
                            p0.update(policy="on_interval", interval=sc.get("interval", 1) * 2.5)
                            x = dict(x, policy="on_interval", interval=sc.get("interval", 0.12 if kind != "gillespie" else 0.005))
                        elif which == "dt":
                            p0["dt"] = sc["dt"] * 2
                        elif which == "ts":
                            p0["ts"] = [t * 0.5 for t in sc["ts"]]
                        elif which == "policy":
                            p0["policy"] = "on_iteration" if sc["policy"] != "on_iteration" else "on_t_sample"
                        else:
                            p0["system"] = "rev" if sc["system"] != "rev" else "decay"
                    p1 = dict(scripts[(si + 2) % len(scripts)], space="graph", seed=78)
                    calls = schedule(rng, two)
                    kinds = {"e1": kind}
                    if any(c[1] == "e2" for c in calls):
                        kinds["e2"] = rng.choice(H.KINDS)
                    cf = {"X": x, "P0": p0, "P1": p1}
                    used = {c[2] for c in calls if c[0] == "setup"}
                    out.append({"id": "h%d" % n, "kinds": kinds, "cfgs": {k: cf[k] for k in used}, "calls": calls, "view": "own"})
                    n += 1
    return out


def bits(a):
    return np.ascontiguousarray(a, dtype=np.float64).tobytes()


def seed_checks(rep, tier, seed):
    """Stored script (with the drawn seed) reproduces the trajectory; Euler ignores the seed;
    a different seed changes stochastic results. Run in this process through simulate()."""
    from strengths import simulate, simulate_script
    lib = build.load("plain")
    n = 3 if tier == "quick" else 25
    for kind in H.KINDS:
        scripts = SCRIPTS_G if kind == "gillespie" else SCRIPTS
        for si, sc in enumerate(scripts[:3]):
            for rep_i in range(n):
                system = engine_rec.get_system(sc["system"], "grid" if rep_i % 2 == 0 else "graph")
                kw = dict(time_step=sc["dt"], sampling_policy=sc["policy"], sampling_interval=sc.get("interval", 1))
                o1 = simulate(system, sc["ts"], engine=build.make_engine(kind, lib=lib), rng_seed=None, **kw)
                o2 = simulate_script(o1.script, build.make_engine(kind, lib=lib))
                rep.case(["stored-script", kind, si, rep_i, int(o1.script.rng_seed)])
                if bits(o1.data.value) != bits(o2.data.value) or bits(o1.t.value) != bits(o2.t.value):
                    rep.violation("stored-script", "seed:stored-script-does-not-reproduce",
                                  {"kind": kind, "script": sc, "drawn_seed": int(o1.script.rng_seed)})
                sa, sb = 1000 + rep_i, 2000 + rep_i
                oa = simulate(system, sc["ts"], engine=build.make_engine(kind, lib=lib), rng_seed=sa, **kw)
                ob = simulate(system, sc["ts"], engine=build.make_engine(kind, lib=lib), rng_seed=sb, **kw)
                oa2 = simulate(system, sc["ts"], engine=build.make_engine(kind, lib=lib), rng_seed=sa, **kw)
                rep.case(["seeds", kind, si, rep_i])
                if bits(oa.data.value) != bits(oa2.data.value) or bits(oa.t.value) != bits(oa2.t.value):
                    rep.violation("seed", "seed:same-seed-differs", {"kind": kind, "script": sc, "seed": sa})
                if int(oa.script.rng_seed) != sa:
                    rep.violation("seed", "seed:not-stored", {"kind": kind, "script": sc, "seed": sa,
                                                              "stored": int(oa.script.rng_seed)})
                same = bits(oa.data.value) == bits(ob.data.value) and bits(oa.t.value) == bits(ob.t.value)
                if kind == "euler" and not same:
                    rep.violation("seed", "seed:euler-depends-on-seed", {"script": sc, "seeds": [sa, sb]})
                if kind != "euler" and same and sc["policy"] != "no_sampling":
                    rep.violation("seed", "seed:stochastic-ignores-seed", {"kind": kind, "script": sc, "seeds": [sa, sb]})


def boundary_seed_checks(rep):
    """Every seed of the documented range is a seed: it is stored as given whichever way the script is built
    (keyword, constructor, dictionary) and independent builds of the same description give the same trajectory."""
    from strengths import RDScript, rdscript_from_dict, rdscript_to_dict, simulate, simulate_script
    lib = build.load("plain")
    for kind in ("gillespie", "tauleap", "euler"):
        sc = (SCRIPTS_G if kind == "gillespie" else SCRIPTS)[0]
        for space in ("grid", "graph"):
            system = engine_rec.get_system(sc["system"], space)
            kw = dict(time_step=sc["dt"], sampling_policy=sc["policy"])
            for sd in (0, 1, 2 ** 31 - 1, 2 ** 31, 2 ** 32 - 1):
                outs = []
                for rep_i in range(2):
                    o = simulate(system, sc["ts"], engine=build.make_engine(kind, lib=lib), rng_seed=sd, **kw)
                    outs.append(("simulate", o))
                    s2 = RDScript(system=system, t_sample=sc["ts"], rng_seed=sd, **kw)
                    outs.append(("constructor", simulate_script(s2, build.make_engine(kind, lib=lib))))
                    d = rdscript_to_dict(s2)
                    d["rng_seed"] = sd
                    s3 = rdscript_from_dict(d)
                    outs.append(("dictionary", simulate_script(s3, build.make_engine(kind, lib=lib))))
                rep.case(["boundary-seed", kind, space, sd])
                for how, o in outs:
                    if int(o.script.rng_seed) != sd:
                        rep.violation("seed", "seed:not-stored", {"kind": kind, "seed": sd, "built-by": how, "stored": int(o.script.rng_seed)})
                        break
                ref = outs[0][1]
                for how, o in outs[1:]:
                    if bits(o.data.value) != bits(ref.data.value) or bits(o.t.value) != bits(ref.t.value):
                        rep.violation("seed", "seed:same-seed-differs", {"kind": kind, "space": space, "seed": sd, "built-by": how})
                        break


def coarse_grained_seed_checks(rep, tier):
    """The coarse-graining route of simulate(): same script + same seed + same map = same trajectory, and that trajectory is the
    un-coarse-grained plain run of the coarse-grained system with that very seed."""
    from strengths import simulate
    from strengths.coarsegrain import coarsegrain_system, uncoarsegrain_trajectory
    lib = build.load("plain")
    nrep = 2 if tier == "quick" else 6
    for kind in H.KINDS:
        scripts = SCRIPTS_G if kind == "gillespie" else SCRIPTS
        for si, sc in enumerate(scripts[:3]):
            system = engine_rec.get_system(sc["system"], "grid")
            n = system.space.size()
            env = list(system.space.cell_env)
            maps = [list(range(n))] + ([[0] * n] if len(set(env)) == 1 else [])
            kw = dict(time_step=sc["dt"], sampling_policy=sc["policy"], sampling_interval=sc.get("interval", 1))
            for cg in maps:
                for sd in (0, 4242 + si):
                    outs = [simulate(system, sc["ts"], engine=build.make_engine(kind, lib=lib), rng_seed=sd, cgmap=cg, **kw) for _ in range(nrep)]
                    rep.case(["coarse-grained-seed", kind, si, cg, sd])
                    tag = {"kind": kind, "script": sc, "cgmap": cg, "seed": sd}
                    if any(bits(o.data.value) != bits(outs[0].data.value) or bits(o.t.value) != bits(outs[0].t.value) for o in outs[1:]):
                        rep.violation("seed", "seed:coarse-grained-run-not-reproducible", tag)
                        continue
                    plain = simulate(coarsegrain_system(system, cg), sc["ts"], engine=build.make_engine(kind, lib=lib), rng_seed=sd, **kw)
                    want = uncoarsegrain_trajectory(plain, system, cg)
                    if bits(want.data.value) != bits(outs[0].data.value) or bits(want.t.value) != bits(outs[0].t.value):
                        rep.violation("seed", "seed:coarse-grained-run-is-not-the-plain-run-of-the-coarse-system", tag)


def run(tier, selftest=False, only=None):
    rep = Report(PROP, tier)
    rep.rule = ("model: all partitions of the iteration sequence into iterate / iterate_n(k) / run slices interleaved with "
                "observers (ScheduleIndependence); implementation: for each script x engine kind x space, seeded random "
                "schedules (iterate, iterate_n, run(0|1|5 ms), observers) after 0-2 earlier simulations on the same or "
                "another engine object; every get_output must hold, bit for bit, the states of the steps the specification "
                "says were recorded, taken from a reference run in a fresh process; plus stored-script / seed checks; "
                "distinct = distinct recorded traces / distinct (kind, script, seed) cases")
    rep.assumptions = [
        "bitwise comparison between runs of the same freshly built library",
        "two stochastic runs with different seeds are required to differ only for scripts with tens of expected events",
        "histories in which an earlier engine object is used again after another object's set-up fall under finding F6 (C10)",
    ]
    seed = util.seed()
    sel = lambda n: only is None or n in only
    if sel("model"):
        model_check(rep, tier)
    if sel("hist"):
        hs = histories(tier, seed)
        H.check_histories(rep, hs, "schedules")
        rep.extra["histories"] = len(hs)
    if sel("seeds"):
        seed_checks(rep, tier, seed)
        boundary_seed_checks(rep)
        coarse_grained_seed_checks(rep, tier)
    if selftest:
        from . import c10
        c10.self_test(rep)
    return rep.finish()


def replay(rp):
    rep = Report(PROP, "quick")
    h = rp.get("replay", {}).get("history")
    if not h:
        print("replay file has no history")
        return 2
    H.check_histories(rep, [h], "replay")
    return rep.finish()
