"""C19 - Reaction equations: stoichiometry, order and rate-constant dimensions."""
import itertools
import json
import random

from .. import units_oracle as UO
from ..vlib import tlc, util
from ..vlib.report import MachineryError, Report

util.ensure_repo_importable()
from strengths import RDNetwork, Reaction, Species, UnitValue, Units, UnitsSystem  # noqa: E402
from strengths.units import UnitsDimensions  # noqa: E402
from strengths import librdengine  # noqa: E402
from strengths.rdnetwork import reaction_from_dict  # noqa: E402

PROP = "C19"
LABELS = ["A", "B", "C", "2"]


def text_of(tokens, rng=None):
    out = []
    for t in tokens:
        if t[0] == "n":
            out.append(str(t[1]))
        elif t[0] == "l":
            out.append(t[1])
        elif t[0] == " ":
            out.append(" " if rng is None else rng.choice([" ", "  ", "\t", "   "]))
        else:
            out.append(t[0])
    return "".join(out)


def check_case(rep, c, rng, systems, swap=False):
    sub_key, prod_key = ("psto", "ssto") if swap else ("ssto", "psto")
    ssto, psto = c[sub_key], c[prod_key]
    order, rorder = (c["rorder"], c["order"]) if swap else (c["order"], c["rorder"])
    kdim, krdim = (c["krdim"], c["kdim"]) if swap else (c["kdim"], c["krdim"])
    net = {l: (-v if swap else v) for l, v in c["net"].items()}
    texts = []
    for key in ("tight", "loose", "printed"):
        toks = c[key]
        if swap:
            # reverse the equation: split the token list at "->" and exchange the sides
            i = [k for k, t in enumerate(toks) if t[0] == "->"][0]
            toks = toks[i + 1:] + [[" "]] + [["->"]] + [[" "]] + toks[:i]
        texts.append(text_of(toks, rng if key == "loose" else None))
    sysname = rng.choice(systems)
    usys = UnitsSystem(*sysname)
    detail = {"texts": texts, "swap": swap}
    for ti, text in enumerate(texts):
        rep.case(["eq", text])
        try:
            r = Reaction(text, kf=2.0, kr=0.5, units_system=usys)
        except Exception as e:  # noqa
            rep.violation("equation", "reaction:rejected-valid-equation", dict(detail, text=text, exc=repr(e)[:200]))
            return
        got_s = {l: int(r.substrates.get(l, 0)) for l in LABELS}
        got_p = {l: int(r.products.get(l, 0)) for l in LABELS}
        if got_s != ssto or got_p != psto:
            rep.violation("equation", "reaction:stoichiometry", dict(detail, text=text, got=[got_s, got_p], spec=[ssto, psto]))
            return
        extra = (set(r.substrates) | set(r.products)) - set(LABELS)
        if extra:
            rep.violation("equation", "reaction:phantom-species", dict(detail, text=text, extra=sorted(extra)))
            return
        if list(r.ssto(LABELS)) != [ssto[l] for l in LABELS] or list(r.psto(LABELS)) != [psto[l] for l in LABELS] \
                or list(r.dsto(LABELS)) != [net[l] for l in LABELS]:
            rep.violation("equation", "reaction:sto-vectors", dict(detail, text=text))
            return
        # the vectors are functions of the label list they are asked for: another order, a sub-list, a list with a stranger
        for labs in (LABELS[::-1], LABELS[1:3], [LABELS[2], "Zz", LABELS[0]], LABELS):
            want_s = [ssto.get(l, 0) for l in labs]
            want_p = [psto.get(l, 0) for l in labs]
            if list(r.ssto(labs)) != want_s or list(r.psto(labs)) != want_p or list(r.dsto(labs)) != [b - a for a, b in zip(want_s, want_p)]:
                rep.violation("equation", "reaction:sto-vectors:other-label-list", dict(detail, text=text, labels=labs, got=[list(r.ssto(labs)), list(r.psto(labs))]))
                return
        if r.order() != order or r.rorder() != rorder:
            rep.violation("equation", "reaction:order", dict(detail, text=text, got=[r.order(), r.rorder()], spec=[order, rorder]))
            return
        for which, k, want in (("kf", r.kf, kdim), ("kr", r.kr, krdim)):
            d = k.units.dim
            s = k.units.sys
            if [d["space"], d["time"], d["quantity"]] != list(want) or (s["space"], s["time"], s["quantity"]) != tuple(sysname):
                rep.violation("constants", "reaction:bare-constant-units:" + which,
                              dict(detail, text=text, got=str(k), want_dim=want, system=sysname))
                return
    r = Reaction(texts[0], kf=2.0, kr=0.5, units_system=usys)
    if r.to_string() != texts[2] and not swap:
        rep.violation("equation", "reaction:to_string", dict(detail, got=r.to_string(), spec=texts[2]))
    try:
        r2 = Reaction(r.to_string())
        if {l: r2.substrates.get(l, 0) for l in LABELS} != ssto or {l: r2.products.get(l, 0) for l in LABELS} != psto:
            rep.violation("equation", "reaction:print-parse", dict(detail, printed=r.to_string()))
    except Exception as e:  # noqa
        rep.violation("equation", "reaction:print-parse-exception", dict(detail, printed=r.to_string(), exc=repr(e)[:100]))
    # every other dimension vector near the right one is refused
    for delta in rng.sample([d for d in itertools.product((-1, 0, 1), repeat=3) if d != (0, 0, 0)], 3):
        wrong = [kdim[0] + delta[0], kdim[1] + delta[1], kdim[2] + delta[2]]
        # ... whatever its value (zero included), for either constant, as a quantity or as text, at construction or by assignment
        val = rng.choice([1.0, 0.0, 0.0, 2.5])
        q = UnitValue(val, Units(usys, UnitsDimensions(*wrong)))
        wrong_r = [krdim[0] + delta[0], krdim[1] + delta[1], krdim[2] + delta[2]]
        qr = UnitValue(val, Units(usys, UnitsDimensions(*wrong_r)))
        attempts = {"kf-quantity": lambda: Reaction(texts[0], kf=q, units_system=usys),
                    "kf-text": lambda: Reaction(texts[0], kf=str(q), units_system=usys),
                    "kr-quantity": lambda: Reaction(texts[0], kf=1.0, kr=qr, units_system=usys),
                    "kr-text": lambda: Reaction(texts[0], kf=1.0, kr=str(qr), units_system=usys),
                    "kf-assigned": lambda: setattr(Reaction(texts[0], kf=1.0, units_system=usys), "kf", q),
                    "kr-assigned": lambda: setattr(Reaction(texts[0], kf=1.0, units_system=usys), "kr", qr),
                    "kf-dictionary": lambda: reaction_from_dict({"eq": texts[0], "k+": str(q)})}
        for how, fn in attempts.items():
            try:
                fn()
                rep.violation("constants", "reaction:wrong-dimension-accepted:%s%s" % (how, ":zero" if val == 0 else ""),
                              dict(detail, dim=wrong if how.startswith("kf") else wrong_r, right=kdim if how.startswith("kf") else krdim, value=val))
                break
            except Exception:
                pass
    # explicit quantity of the right dimension in another system is kept as given
    other = rng.choice(systems)
    k = UnitValue(3.0, Units(UnitsSystem(*other), UnitsDimensions(*kdim)))
    rk = Reaction(texts[0], kf=k, units_system=usys)
    if rk.kf.value != 3.0 or (rk.kf.units.sys["space"], rk.kf.units.sys["time"], rk.kf.units.sys["quantity"]) != tuple(other):
        rep.violation("constants", "reaction:explicit-constant-changed", dict(detail, got=str(rk.kf), given=str(k)))
    # split and equilibrium constant
    f, b = r.split()
    ok = ({l: f.substrates.get(l, 0) for l in LABELS} == ssto and {l: f.products.get(l, 0) for l in LABELS} == psto
          and {l: b.substrates.get(l, 0) for l in LABELS} == psto and {l: b.products.get(l, 0) for l in LABELS} == ssto
          and f.kf == r.kf and b.kf == r.kr and f.kr.value == 0 and b.kr.value == 0
          and f.order() == order and b.order() == rorder)
    if not ok:
        rep.violation("split", "reaction:split", dict(detail, fwd=f.to_string(), rev=b.to_string(), kf=str(f.kf), kr=str(b.kf)))
    K = r.K
    want = 2.0 / 0.5
    kd = [kdim[i] - krdim[i] for i in range(3)]
    if K is None or abs(K.value - want) > 1e-12 * want or [K.units.dim["space"], K.units.dim["time"], K.units.dim["quantity"]] != kd:
        rep.violation("split", "reaction:equilibrium-constant", dict(detail, got=str(K), want=want, dim=kd))
    # the ratio is a ratio whatever the magnitudes (only an exactly null reverse constant has no equilibrium constant)
    for kfv, krv in ((3e-9, 4e-12), (2.5, 1e-9), (1e20, 5e-30), (7e-31, 2e-300), (4e-200, 5e-290)):
        rm = Reaction(texts[0], kf=kfv, kr=krv, units_system=usys)
        Km = rm.K
        wantm = kfv / krv
        if Km is None or not (abs(Km.value - wantm) <= 1e-12 * wantm):      # (normal-range magnitudes only: 1/kr must not overflow)
            rep.violation("split", "reaction:equilibrium-constant:magnitude", dict(detail, kf=kfv, kr=krv, got=str(Km), want=wantm))
            break
    if Reaction(texts[0], kf=1.0, kr=0).K is not None:
        rep.violation("split", "reaction:equilibrium-constant-kr0", detail)
    rd = Reaction(texts[0], kf={"a": 4.0, "default": 1.0}, kr={"a": 2.0, "b": 0.0})
    Kd = rd.K
    if not (isinstance(Kd, dict) and abs(Kd["a"].value - 2.0) < 1e-12 and Kd["b"] is None):
        rep.violation("split", "reaction:equilibrium-constant-per-environment", dict(detail, got=str(Kd)))
    # a key may name several environments, separated by commas with any blanks around them
    key = rng.choice(["a,b", "a, b", " a ,b ", "a , b"])
    rg = Reaction(texts[0], kf={key: 4.0, "default": 1.0}, kr={key: 2.0, "c": 8.0})
    Kg = rg.K
    fg, bg = rg.split()
    okg = (isinstance(Kg, dict) and set(Kg) >= {"a", "b"} and all(k == k.strip() for k in Kg)
           and abs(Kg["a"].value - 2.0) < 1e-12 and abs(Kg["b"].value - 2.0) < 1e-12
           and isinstance(fg.kf, dict) and set(fg.kf) == set(rg.kf) and all(k == k.strip() for k in rg.kf)
           and rg.kf["b"].value == 4.0 and bg.kf["b"].value == 2.0)
    if not okg:
        rep.violation("split", "reaction:grouped-environment-key", dict(detail, key=key, K=str({k: str(v) for k, v in Kg.items()}) if isinstance(Kg, dict) else str(Kg),
                                                                       kf_keys=sorted(rg.kf) if isinstance(rg.kf, dict) else None))


def network_checks(rep, rng):
    sp = [Species("A"), Species("B")]
    cases = [
        ("undeclared-substrate", lambda: RDNetwork(species=sp, reactions=[Reaction("A + C -> B")])),
        ("undeclared-product", lambda: RDNetwork(species=sp, reactions=[Reaction("A -> 2 Z")])),
        ("duplicate-species", lambda: RDNetwork(species=[Species("A"), Species("A")], reactions=[])),
        ("duplicate-reaction-label", lambda: RDNetwork(species=sp, reactions=[Reaction("A -> B", label="r"), Reaction("B -> A", label="r")])),
    ]
    from strengths import rdnetwork_from_dict
    spd = lambda labels: [{"label": l} for l in labels]
    for order in (["A", "B", "A"], ["A", "A"], ["B", "A", "C", "B"]):
        cases.append(("duplicate-species", lambda order=order: RDNetwork(species=[Species(l) for l in order], reactions=[])))
        cases.append(("duplicate-species(dict)", lambda order=order: rdnetwork_from_dict({"species": spd(order), "reactions": []})))
    # (the empty string is a label like any other: only None means "no label")
    for labels in (["r", "r"], ["r", None, "r"], ["p", "q", "p"], ["q", "p", "p"], ["", ""], ["", None, "x", ""], ["0", "0"]):
        mk = lambda labels=labels: [Reaction("A -> B", **({"label": l} if l is not None else {})) for l in labels]
        cases.append(("duplicate-reaction-label", lambda mk=mk: RDNetwork(species=sp, reactions=mk())))
        cases.append(("duplicate-reaction-label(dict)", lambda labels=labels: rdnetwork_from_dict(
            {"species": spd(["A", "B"]), "reactions": [dict({"eq": "A -> B"}, **({"label": l} if l is not None else {})) for l in labels]})))
    for name, fn in cases:
        rep.case(["network", name])
        try:
            fn()
            rep.violation("network", "network:accepted:" + name, {})
        except Exception:
            pass
    ok = [lambda: RDNetwork(species=sp, reactions=[Reaction("A -> B", label="r1"), Reaction("B -> A", label="r2"), Reaction("A -> B")]),
          lambda: RDNetwork(species=sp, reactions=[Reaction("A -> B", label=""), Reaction("B -> A"), Reaction("A -> B"), Reaction("B -> A", label="0")]),
          lambda: RDNetwork(species=sp, reactions=[Reaction(" -> A"), Reaction("B -> ")])]
    for fn in ok:
        try:
            fn()
        except Exception as e:  # noqa
            rep.violation("network", "network:rejected-valid", {"exc": repr(e)[:200]})


def network_membership(rep, cases, rng, n):
    """A network accepts a reaction exactly when every species its equation names is declared - whichever side names it,
    whatever the other side holds (empty sides included), through the constructor and through the dictionary reader."""
    from strengths import rdnetwork_from_dict
    stats = {"accepted": 0, "refused": 0, "tried_valid": 0, "tried_undeclared_product_with_empty_reactant_side": 0}
    for c in rng.sample(cases, min(len(cases), n)):
        toks = c["tight"]
        swap = rng.random() < 0.5
        if swap:
            i = [k for k, t in enumerate(toks) if t[0] == "->"][0]
            toks = toks[i + 1:] + [[" "]] + [["->"]] + [[" "]] + toks[:i]
        text = text_of(toks)
        i = [k for k, t in enumerate(toks) if t[0] == "->"][0]
        left = {t[1] for t in toks[:i] if t[0] == "l"}
        named = {t[1] for t in toks if t[0] == "l"}
        if not named:
            continue
        # declare everything, or leave exactly one named species out
        missing = rng.choice(sorted(named)) if rng.random() < 0.7 else None
        declared = [l for l in LABELS if l != missing]
        rng.shuffle(declared)
        # the reaction stands alone or among reactions over declared species only, at any position of the list
        eqs = [text]
        if rng.random() < 0.6:
            eqs = [" -> %s" % declared[0], "%s -> " % declared[-1]]
            eqs.insert(rng.randrange(3), text)
        for how in ("constructor", "dictionary"):
            rep.case(["network-membership", eqs, missing, how])
            try:
                if how == "constructor":
                    RDNetwork(species=[Species(l) for l in declared], reactions=[Reaction(e) for e in eqs])
                else:
                    rdnetwork_from_dict({"species": [{"label": l} for l in declared], "reactions": [{"eq": e} for e in eqs]})
                accepted = True
            except Exception:
                accepted = False
            if accepted and missing is not None:
                rep.violation("network", "network:accepted:undeclared-%s%s" % ("reactant" if missing in left else "product",
                                                                               "" if left else "-with-empty-reactant-side"),
                              {"equation": text, "reactions": eqs, "declared": declared, "undeclared": missing, "built-by": how})
            elif not accepted and missing is None:
                rep.violation("network", "network:rejected-valid", {"equation": text, "declared": declared, "built-by": how})
            stats["accepted" if accepted else "refused"] += 1
            if missing is not None and not left:
                stats["tried_undeclared_product_with_empty_reactant_side"] += 1
            if missing is None:
                stats["tried_valid"] += 1
    rep.extra["network_membership"] = stats
    if stats["tried_undeclared_product_with_empty_reactant_side"] == 0 or stats["tried_valid"] == 0:
        raise MachineryError("network membership check is vacuous: %s" % stats)


def matrix_checks(rep, cases, rng):
    """build_*_matrix of librdengine (the link to the engine tables)."""
    species = [Species(l) for l in LABELS]
    envs = ["a", "b", "c"]
    for _ in range(200):
        cs = rng.sample(cases, 3)
        reacs, want_k = [], {e: [] for e in envs}
        for c in cs:
            # constants per environment in every shape a dictionary may take: some environments listed, a default or none
            ks = []
            for _side in range(2):
                shape = rng.choice(["scalar", "all", "some", "some+default", "default-only", "grouped"])
                vals = {e: float(rng.choice([0, 1, 2, 3, 5, 7])) for e in envs}
                dflt = float(rng.choice([0, 4, 9]))
                if shape == "scalar":
                    k = vals["a"]
                    eff = {e: vals["a"] for e in envs}
                elif shape == "all":
                    k, eff = dict(vals), dict(vals)
                elif shape == "some":
                    k = {"a": vals["a"], "c": vals["c"]}
                    eff = {"a": vals["a"], "b": 0.0, "c": vals["c"]}
                elif shape == "some+default":
                    k = {"b": vals["b"], "default": dflt}
                    eff = {"a": dflt, "b": vals["b"], "c": dflt}
                elif shape == "default-only":
                    k = {"default": dflt}
                    eff = {e: dflt for e in envs}
                else:
                    k = {"a , c": vals["a"], "default": dflt}
                    eff = {"a": vals["a"], "b": dflt, "c": vals["a"]}
                ks.append((k, eff))
            r = Reaction(text_of(c["tight"]), kf=ks[0][0], kr=ks[1][0])
            f, b = r.split()
            reacs += [f, b]
            for e in envs:
                want_k[e] += [ks[0][1][e], ks[1][1][e]]
        km = [float(v) for v in librdengine.build_reaction_rate_constant_matrix(reacs, envs, UnitsSystem())]
        want_km = [v for e in envs for v in want_k[e]]
        if km != want_km:
            rep.violation("matrices", "reaction:engine-rate-constant-matrix", {"equations": [text_of(c["tight"]) for c in cs],
                                                                               "kf": [str(r.kf) for r in reacs], "got": km, "want": want_km})
        sub = list(librdengine.build_substrate_stoechiometric_matrix(species, reacs))
        sto = list(librdengine.build_stoechiometric_difference_matrix(species, reacs))
        R = len(reacs)
        want_sub, want_sto = [0] * (4 * R), [0] * (4 * R)
        for ci, c in enumerate(cs):
            for si, l in enumerate(LABELS):
                want_sub[si * R + 2 * ci] = c["ssto"][l]
                want_sub[si * R + 2 * ci + 1] = c["psto"][l]
                want_sto[si * R + 2 * ci] = c["net"][l]
                want_sto[si * R + 2 * ci + 1] = -c["net"][l]
        rep.case(["matrix", [text_of(c["tight"]) for c in cs]])
        if [int(v) for v in sub] != want_sub or [int(v) for v in sto] != want_sto:
            rep.violation("matrices", "reaction:engine-matrices", {"equations": [text_of(c["tight"]) for c in cs],
                                                                   "sub": [int(v) for v in sub], "want_sub": want_sub})


def own_units_checks(rep):
    """'bare numbers get exactly these units in the reaction's units system' - the reaction's own: what the caller does afterwards
    to the units-system object it handed over, or to another reaction built with the same object or with the default, changes
    nothing in a reaction that already exists, and nothing in the ones built later with the default."""
    from strengths import UnitsSystem, reaction_to_dict
    view = lambda r: json.dumps(reaction_to_dict(r), sort_keys=True, default=str)
    routes = []

    def handed_over():
        us = UnitsSystem(space="nm", time="ms", quantity="mol")
        r = Reaction("A + B -> C", kf=2, kr=3, units_system=us)
        before = view(r)
        us.time, us.space, us.quantity = "min", "m", "molecule"
        return before, view(r)
    routes.append(("units-system-object-edited-after-construction", handed_over))

    def assigned():
        us = UnitsSystem(space="nm", time="ms", quantity="mol")
        r = Reaction("A + B -> C")
        r.units_system = us
        r.kf = 2
        before = view(r)
        us.time = "h"
        return before, view(r)
    routes.append(("units-system-object-edited-after-assignment", assigned))

    def shared_between_two():
        us = UnitsSystem(space="cm", time="s", quantity="µmol")
        r1 = Reaction("A -> B", kf=1.5, units_system=us)
        r2 = Reaction("2 A -> B", kf=4, units_system=us)
        before = view(r1)
        r2.units_system.time = "h"
        return before, view(r1)
    routes.append(("another-reaction-built-with-the-same-object-edited", shared_between_two))

    def default_argument():
        before = view(Reaction("A -> B", kf=6))
        r = Reaction("A -> B", kf=6)
        r.units_system.time = "h"
        return before, view(Reaction("A -> B", kf=6))
    routes.append(("default-units-after-editing-a-default-built-reaction", default_argument))

    def split_half():
        r = Reaction("A -> B", kf=6, kr=2, units_system=UnitsSystem(space="cm", time="s", quantity="molecule"))
        before = view(r)
        h1, h2 = r.split()
        h1.units_system.time = "h"
        h2.units_system.space = "m"
        return before, view(r)
    routes.append(("half-of-a-split-edited", split_half))
    for name, fn in routes:
        rep.case(["own-units", name])
        try:
            before, after = fn()
        except Exception as e:  # noqa
            rep.violation("constants", "reaction:own-units-exception:" + name, {"exc": repr(e)[:200]})
            continue
        if before != after:
            rep.violation("constants", "reaction:units-follow-an-object-held-elsewhere:" + name, {"before": json.loads(before), "after": json.loads(after)})


# ---- histories of one reaction object (specs/ReactionEdit.tla): TLC generates call sequences, the object is driven along them ----
RE_EQS = {1: "A -> B", 2: "A + B -> C", 3: "2 A -> ", 4: " -> A + 2 B"}


def reaction_history_checks(rep, tier, seed, rng):
    from strengths import UnitValue, UnitsSystem, reaction_from_dict, reaction_to_dict
    depth = 5 if tier == "quick" else 6
    tlc.write_cfg("MC_ReactionEdit_d", open(tlc.workdir() + "/MC_ReactionEdit.cfg").read().replace("Depth = 3", "Depth = %d" % depth))
    r = tlc.run("MC_ReactionEdit", cfg="MC_ReactionEdit_d", timeout=3000, heap="8g")
    rep.add_tlc("MC_ReactionEdit (every history of %d calls on one reaction object)" % depth, r)
    if not r.ok:
        if r.violated:
            rep.violation("model", "model:reactionedit:" + r.violated, {"tlc": r.tail(30)})
        else:
            raise MachineryError("TLC failed: %s\n%s" % (r.error, r.tail(20)))
    want, tmo = (1200, 40) if tier == "quick" else (15000, 240)
    lines, st = tlc.stream("MC_ReactionEdit", "Gen_ReactionEdit", want, seed=seed * 3 + 19, simulate_depth=14, timeout=tmo)
    if st["error"]:
        raise MachineryError("TLC generator failed: %s\n%s" % (st["error"], "\n".join(st["other_tail"])))
    if len(lines) < want // 10:
        raise MachineryError("TLC generated only %d reaction histories" % len(lines))
    si = UnitsSystem(space="m", time="s", quantity="molecule")
    fl = lambda m: float(UO.mono(m))
    cl = lambda a, b: a == b or abs(a - b) <= 1e-12 * max(abs(a), abs(b))

    def kunit(sys_, n):
        parts = []
        for u, e in zip(sys_, (3 * n - 3, -1, 1 - n)):
            if e:
                parts.append(u if e == 1 else "%s%d" % (u, e))
        return ".".join(parts)

    ops = {}
    for l in lines:
        prog = json.loads(tlc.unquote_tla_json(l))
        steps = prog["steps"]
        hist = [(x["op"], x["args"]) for x in steps]
        rep.case({"reaction-history": hist})
        first = steps[0]
        tag = {"history": hist, "initial": {"equation": RE_EQS[first["eq0"]["id"]], "units": first["usys0"]}}
        with rep.guard("reaction-history", tag):
            eqid, us0 = first["eq0"]["id"], first["usys0"]
            robj = Reaction(RE_EQS[eqid], kf=2, kr=3, units_system=UnitsSystem(space=us0[0], time=us0[1], quantity=us0[2]))
            handed = []
            for k, st_ in enumerate(steps):
                op, a = st_["op"], st_["args"]
                ops[op] = ops.get(op, 0) + 1
                fo, ro = st_["eq"]["fo"], st_["eq"]["ro"]

                def q(v, u, n):
                    if u == ["bare"]:
                        return rng.choice([v, float(v)])
                    x = rng.choice([UnitValue(v, kunit(u, n)), "%d %s" % (v, kunit(u, n))]) if kunit(u, n) else rng.choice([UnitValue(v, ""), v])
                    if isinstance(x, UnitValue):
                        handed.append(x)
                    return x
                try:
                    if op == "set_kf":
                        robj.kf = q(a["v"], a["u"], fo)
                    elif op == "set_kr":
                        robj.kr = q(a["v"], a["u"], ro)
                    elif op == "set_k":
                        robj.set_k(a["v"], float(a["w"]))
                    elif op == "set_units":
                        us_ = UnitsSystem(space=a["u"][0], time=a["u"][1], quantity=a["u"][2])
                        robj.units_system = rng.choice([us_, {"space": a["u"][0], "time": a["u"][1], "quantity": a["u"][2]}])
                        handed.append(us_)
                    elif op == "take_half":
                        robj = robj.split()[a["h"] - 1]
                    elif op == "copy":
                        robj = robj.copy()
                    elif op == "roundtrip":
                        robj = reaction_from_dict(json.loads(json.dumps(reaction_to_dict(robj))))
                    elif op == "caller_edits":
                        while handed:
                            x = handed.pop()
                            if isinstance(x, UnitValue):
                                x.value = 77.0
                            else:
                                x.time, x.space = "h", "km"
                    else:
                        raise MachineryError("unknown operation in a generated reaction history: %r" % op)
                    got = {"kf": float(robj.kf.convert(si).value), "kr": float(robj.kr.convert(si).value), "order": [robj.order(), robj.rorder()],
                           "usys": [robj.units_system["space"], robj.units_system["time"], robj.units_system["quantity"]]}
                    K = robj.K
                    got["K"] = None if K is None else float(K.convert(si).value)
                except MachineryError:
                    raise
                except Exception as ex:  # noqa
                    rep.violation("reaction-history", "reaction:history:exception:" + op, dict(tag, step=k + 1, exc=repr(ex)[:200]))
                    break
                wantK = None if "none" in st_["K"] else fl(st_["K"])
                ok = (cl(got["kf"], fl(st_["kf"])) and cl(got["kr"], fl(st_["kr"])) and got["order"] == [fo, ro] and got["usys"] == list(st_["usys"])
                      and ((got["K"] is None) == (wantK is None)) and (wantK is None or cl(got["K"], wantK)))
                if not ok:
                    rep.violation("reaction-history", "reaction:history:" + op,
                                  dict(tag, step=k + 1, got=got, spec={"kf": fl(st_["kf"]), "kr": fl(st_["kr"]), "order": [fo, ro], "usys": st_["usys"], "K": wantK}))
                    break
    rep.extra["reaction_histories_generated"] = len(lines)
    rep.extra["reaction_history_calls_by_kind"] = ops
    missing = {"set_kf", "set_kr", "set_k", "set_units", "take_half", "copy", "roundtrip", "caller_edits"} - set(ops)
    if missing:
        raise MachineryError("generated reaction histories never contain: %s" % sorted(missing))


def run(tier, selftest=False, only=None):
    rep = Report(PROP, tier)
    rep.rule = ("model: all equations over labels {A, B, C, '2'} x coefficients {absent, 0, 1, 2, 3, 9} with up to 2 (thorough 3) "
                "terms per side: parse(render) = id for tight and loose spacing, print-parse preserves stoichiometry, order = "
                "coefficient sum, net = products - reactants (TLC); implementation: every emitted equation (and its reverse) built "
                "from its tight, loose (random blanks / tabs) and printed text; per-species coefficients, vectors, orders, "
                "to_string, units of bare constants in a random one of the 1100 unit systems, refusal of neighbouring dimension "
                "vectors, split, equilibrium constant, network refusals, engine matrices; distinct = distinct equation texts")
    rep.assumptions = ["labels without blanks, '+' or '->' (the documented label rules); coefficients are non-negative integers"]
    seed = util.seed()
    rng = random.Random(seed * 7 + 19)
    cfg = "Gen_Reaction"
    if tier == "thorough":
        tlc.write_cfg("Gen_Reaction_full", open(tlc.workdir() + "/Gen_Reaction.cfg").read().replace("MaxTerms2 = 1", "MaxTerms2 = 2"))
        cfg = "Gen_Reaction_full"
        mc = open(tlc.workdir() + "/MC_Reaction.cfg").read().replace("MaxTerms = 2", "MaxTerms = 3")
        tlc.write_cfg("MC_Reaction_big", mc)
        r0 = tlc.run("MC_Reaction", cfg="MC_Reaction_big", timeout=3000, heap="16g")
    else:
        r0 = tlc.run("MC_Reaction", timeout=1200, heap="8g")
    rep.add_tlc("MC_Reaction", r0)
    r = tlc.run("MC_Reaction", cfg=cfg, timeout=3000, heap="12g")
    rep.add_tlc("MC_Reaction (emitting every equation)", r)
    for res in (r0, r):
        if not res.ok:
            if res.violated:
                rep.violation("model", "model:reaction:" + res.violated, {"tlc": res.tail(60)})
            else:
                raise MachineryError("TLC failed: %s\n%s" % (res.error, res.tail(20)))
    rep.exhaustive = True
    cases = [json.loads(tlc.unquote_tla_json(l)) for l in r.out.splitlines() if l.startswith('<<"PROGRAM"')]
    if r.ok and len(cases) < 10000:
        raise MachineryError("only %d equations emitted" % len(cases))
    sc = UO.scales(rep)
    systems = list(itertools.product(sc["space"], sc["time"], sc["quantity"]))
    for c in cases:
        with rep.guard("equation", {"tight": text_of(c["tight"])}):
            check_case(rep, c, rng, systems, swap=False)
        if len(rep.violations) > 60:
            break
    for c in rng.sample(cases, min(len(cases), 4000)):
        with rep.guard("equation", {"tight": text_of(c["tight"]), "reversed": True}):
            check_case(rep, c, rng, systems, swap=True)
    with rep.guard("network", None):
        pass
    network_checks(rep, rng)
    with rep.guard("network", None):
        network_membership(rep, cases, rng, 1500)
    matrix_checks(rep, cases, rng)
    with rep.guard("own-units", None):
        own_units_checks(rep)
    reaction_history_checks(rep, tier, util.seed(), rng)
    rep.traces = len(cases)
    rep.extra["equations"] = len(cases)
    c = cases[len(cases) // 2]
    rep.sample({"tight": text_of(c["tight"]), "printed": text_of(c["printed"]), "order": c["order"], "kdim": c["kdim"], "net": c["net"]})
    if selftest:
        probe = Report("C19-selftest", "quick")
        bad = dict(cases[100])
        bad["order"] = bad["order"] + 1
        check_case(probe, bad, rng, systems)
        rep.selftest("wrong expected order is noticed", len(probe.violations) > 0)
    return rep.finish()


def replay(rp):
    return run("quick")
