"""C15 - Grid geometry is consistent everywhere, and a grid equals its graph."""
import collections
import ctypes
import json
import multiprocessing as mp
import os
import pickle
import random

import numpy as np

from .. import engine_rec, rd_model, rd_rec
from ..vlib import apalache, build, tlc, util
from ..vlib.report import MachineryError, Report

util.ensure_repo_importable()
from strengths import RDGridSpace, RDNetwork, RDScript, RDSystem, Species, UnitArray, UnitValue, UnitsSystem  # noqa: E402
from strengths import kinetics  # noqa: E402
from strengths.coarsegrain import grid_to_graph  # noqa: E402

PROP = "C15"


class P:
    def __init__(self, x=0, y=0, z=0):
        self.x, self.y, self.z = x, y, z


def bcd(bc):
    return {a: ("periodical" if b else "reflecting") for a, b in zip("xyz", bc)}


def raises(fn):
    try:
        fn()
        return False
    except Exception:
        return True


def api_checks(rep, g):
    w, h, d, bc = g["w"], g["h"], g["d"], g["bc"]
    n = w * h * d
    sp = RDGridSpace(w=w, h=h, d=d, boundary_conditions=bcd(bc))
    tag = {"w": w, "h": h, "d": d, "bc": bc}
    rep.case(["grid", w, h, d, bc])
    if sp.size() != n:
        rep.violation("api", "geometry:size", tag)
    for i in range(n):
        x, y, z = i % w, (i % (w * h)) // w, i // (w * h)
        try:
            ok = (tuple(sp.get_cell_coordinates(i)) == (x, y, z) and sp.get_cell_index((x, y, z)) == i
                  and sp.get_cell_index(P(x, y, z)) == i and sp.get_cell_index(i) == i and sp.get_cell_index([x, y, z]) == i
                  and sp.is_within_bounds(i) and sp.is_within_bounds((x, y, z)) and sp.is_within_bounds(P(x, y, z)))
            c2 = sp.get_cell_coordinates(i, P)
            ok = ok and (c2.x, c2.y, c2.z) == (x, y, z)
        except Exception as e:  # noqa
            rep.violation("api", "geometry:index-coordinates-exception", dict(tag, cell=i, exc=repr(e)[:100]))
            return
        if not ok:
            rep.violation("api", "geometry:index-coordinates", dict(tag, cell=i))
            return
        got = collections.Counter(int(j) for j in sp.get_neighbors(i))
        want = collections.Counter(g["nbr"][i])
        if got != want:
            rep.violation("api", "geometry:get_neighbors", dict(tag, cell=i, got=dict(got), spec=dict(want)))
            return
        for j in range(n):
            if i != j and bool(sp.are_neighbors(i, j)) != g["pair"][i][j]:
                rep.violation("api", "geometry:are_neighbors", dict(tag, i=i, j=j, got=bool(sp.are_neighbors(i, j)), spec=g["pair"][i][j]))
                return
    # positions outside the grid are rejected, in every form
    outside = [(-1, 0, 0), (w, 0, 0), (0, -1, 0), (0, h, 0), (0, 0, -1), (0, 0, d), (w + 3, h + 3, d + 3)]
    for pos in outside:
        for form, p in (("tuple", pos), ("object", P(*pos)), ("list", list(pos))):
            if sp.is_within_bounds(p) or not raises(lambda: sp.get_cell_index(p)):
                rep.violation("api", "geometry:outside-accepted:coordinates-" + form, dict(tag, position=list(pos)))
                return
    for idx in (-1, n, n + 1, n + 100, -n - 1):
        bad = []
        if sp.is_within_bounds(idx):
            bad.append("is_within_bounds")
        if not raises(lambda: sp.get_cell_index(idx)):
            bad.append("get_cell_index")
        if not raises(lambda: sp.get_cell_coordinates(idx)):
            bad.append("get_cell_coordinates")
        if not raises(lambda: sp.get_cell_env(idx)):
            bad.append("get_cell_env")
        if not raises(lambda: sp.are_neighbors(0, idx)):
            bad.append("are_neighbors")
        if not raises(lambda: sp.get_neighbors(idx)):
            bad.append("get_neighbors")
        if bad:
            rep.violation("api", "geometry:outside-accepted:linear-index", dict(tag, index=idx, accepted_by=bad))
            return
    # the graph of the grid
    sp2 = RDGridSpace(w=w, h=h, d=d, boundary_conditions=bcd(bc), cell_vol=8.0, cell_env=[k % 2 for k in range(n)])
    gr = grid_to_graph(sp2)
    got = collections.Counter(frozenset((e.i, e.j)) if e.i != e.j else frozenset((e.i,)) for e in gr.edges)
    want = collections.Counter(frozenset((a, b)) if a != b else frozenset((a,)) for a, b in g["edges"])
    if got != want or len(gr.nodes) != n:
        rep.violation("graph", "geometry:grid_to_graph:edges", dict(tag, got=len(gr.edges), spec=len(g["edges"])))
        return
    for k, node in enumerate(gr.nodes):
        if node.environment != k % 2 or abs(node.volume.convert("µm3").value - 8.0) > 1e-12:
            rep.violation("graph", "geometry:grid_to_graph:nodes", dict(tag, node=k))
            return
    for e in gr.edges:
        if abs(e.surface.convert("µm2").value - 4.0) > 1e-9 or abs(e.distance.convert("µm").value - 2.0) > 1e-9:
            rep.violation("graph", "geometry:grid_to_graph:surface-distance",
                          dict(tag, surface=str(e.surface), distance=str(e.distance)))
            return


_lib = None


def _init():
    global _lib
    _lib = ctypes.CDLL(build.build_engine("plain"))


def _engine_nbrs(g):
    """The engine's neighbour multiset of every cell, revealed by one pure-diffusion Euler step from a one-hot state."""
    w, h, d, bc = g["w"], g["h"], g["d"], g["bc"]
    n = w * h * d
    r, wr = os.pipe()
    pid = os.fork()
    if pid == 0:
        os.close(r)
        try:
            net = RDNetwork(species=[Species("A", D=1.0)], reactions=[])
            space = RDGridSpace(w=w, h=h, d=d, boundary_conditions=bcd(bc), cell_vol=1.0)
            dt = 1.0 / 64
            out, kout = [], []
            for i in range(n):
                st = [0.0] * n
                st[i] = 1.0
                system = RDSystem(network=net, space=space, state=UnitArray(st, "molecule"))
                script = RDScript(system=system, t_sample=[0.0], t_max=-1.0, time_step=dt, sampling_policy="no_sampling")
                eng = build.make_engine("euler", lib=_lib)
                eng.setup(script)
                eng.iterate()
                x = engine_rec.raw_state(_lib, n)
                eng.finalize()
                out.append([float(v) / dt for v in x])
                # the Python kinetics on the same one-hot state: d x_j / dt = number of faces shared with cell i
                try:
                    kout.append([float(v) for v in kinetics.compute_dstatedt(system).convert(UnitsSystem()).value])
                except Exception as e:  # noqa
                    kout.append(repr(e)[:160])
            msg = pickle.dumps(("ok", out, kout))
        except BaseException as e:  # noqa
            msg = pickle.dumps(("exc", repr(e)[:200]))
        with os.fdopen(wr, "wb") as f:
            f.write(msg)
        os._exit(0)
    os.close(wr)
    data = engine_rec._read_all(r, 60, pid)
    _, status = os.waitpid(pid, 0)
    if data is None or os.WIFSIGNALED(status) or not data:
        return ("crash",)
    return pickle.loads(data)


def _stochastic_nbrs(g):
    """The stochastic grid engines reveal their neighbour relation too: a single Gillespie walker hops between neighbouring
    cells only; one tau-leap step from a cell holding 1000 molecules feeds exactly the cells the specification lists."""
    w, h, d, bc = g["w"], g["h"], g["d"], g["bc"]
    n = w * h * d
    r, wr = os.pipe()
    pid = os.fork()
    if pid == 0:
        os.close(r)
        try:
            net = RDNetwork(species=[Species("A", D=1.0)], reactions=[])
            space = RDGridSpace(w=w, h=h, d=d, boundary_conditions=bcd(bc), cell_vol=1.0)
            out = {"walk": [], "leap": []}
            if n > 1:
                st = [0.0] * n
                st[(w * h * d) // 2] = 1.0
                system = RDSystem(network=net, space=space, state=UnitArray(st, "molecule"))
                script = RDScript(system=system, t_sample=[0.0], t_max=-1.0, time_step=1.0, sampling_policy="on_iteration", rng_seed=w + 7 * h + 49 * d,
                                  init_state_processing="none")
                eng = build.make_engine("gillespie", lib=_lib)
                eng.setup(script)
                eng.iterate_n(400)
                traj = engine_rec.raw_traj(_lib, n)
                eng.finalize()
                out["walk"] = [int(np.argmax(row)) if abs(sum(row) - 1.0) < 1e-12 and max(row) == 1.0 else -1 for row in traj]
            for i in range(n):
                st = [0.0] * n
                st[i] = 1000.0
                system = RDSystem(network=net, space=space, state=UnitArray(st, "molecule"))
                script = RDScript(system=system, t_sample=[0.0], t_max=-1.0, time_step=0.05, sampling_policy="no_sampling", rng_seed=i + 1,
                                  init_state_processing="none")
                eng = build.make_engine("tauleap", lib=_lib)
                eng.setup(script)
                eng.iterate()
                x = engine_rec.raw_state(_lib, n)
                eng.finalize()
                out["leap"].append([float(v) for v in x])
            msg = pickle.dumps(("ok", out))
        except BaseException as e:  # noqa
            msg = pickle.dumps(("exc", repr(e)[:200]))
        with os.fdopen(wr, "wb") as f:
            f.write(msg)
        os._exit(0)
    os.close(wr)
    data = engine_rec._read_all(r, 60, pid)
    _, status = os.waitpid(pid, 0)
    if data is None or os.WIFSIGNALED(status) or not data:
        return ("crash",)
    return pickle.loads(data)


def stochastic_engine_checks(rep, grids):
    ctx = mp.get_context("fork")
    with ctx.Pool(util.NCPU, initializer=_init) as pool:
        res = pool.map(_stochastic_nbrs, grids, chunksize=2)
    hops = 0
    for g, r in zip(grids, res):
        tag = {"w": g["w"], "h": g["h"], "d": g["d"], "bc": g["bc"]}
        rep.case(["stochastic-nbr", tag])
        if r[0] != "ok":
            rep.violation("engine", "geometry:stochastic-engine-run-" + r[0], dict(tag, info=list(r)))
            continue
        n = g["w"] * g["h"] * g["d"]
        walk = r[1]["walk"]
        for a, b in zip(walk, walk[1:]):
            if a == b:
                continue
            hops += 1
            if a < 0 or b < 0 or b not in g["nbr"][a]:
                rep.violation("engine", "geometry:gillespie-hop-between-non-neighbours", dict(tag, hop=[a, b], neighbours=g["nbr"][a] if a >= 0 else None))
                break
        for i, x in enumerate(r[1]["leap"]):
            want = {j for j in g["nbr"][i] if j != i}
            fed = {j for j in range(n) if j != i and x[j] > 0}
            if fed != want or abs(sum(x) - 1000.0) > 1e-9:
                rep.violation("engine", "geometry:tauleap-neighbours", dict(tag, source=i, fed=sorted(fed), spec=sorted(want), total=sum(x)))
                break
    rep.extra["gillespie_hops_checked"] = hops


def engine_checks(rep, grids):
    build.build_engine("plain")
    ctx = mp.get_context("fork")
    with ctx.Pool(util.NCPU, initializer=_init) as pool:
        res = pool.map(_engine_nbrs, grids, chunksize=2)
    for g, r in zip(grids, res):
        tag = {"w": g["w"], "h": g["h"], "d": g["d"], "bc": g["bc"]}
        rep.case(["engine-nbr", tag])
        if r[0] != "ok":
            rep.violation("engine", "geometry:engine-run-" + r[0], dict(tag, info=list(r)))
            continue
        n = g["w"] * g["h"] * g["d"]
        for i in range(n):
            want = collections.Counter(j for j in g["nbr"][i] if j != i)
            for j in range(n):
                gain = r[1][i][j] if j != i else None
                if j != i and abs(gain - want.get(j, 0)) > 1e-9:
                    rep.violation("engine", "geometry:engine-neighbours", dict(tag, source=i, cell=j, gained_per_kd=gain, spec=want.get(j, 0)))
                    break
            else:
                loss = (1.0 * 64 - r[1][i][i])
                if abs(loss - sum(want.values())) > 1e-9:
                    rep.violation("engine", "geometry:engine-neighbours:loss", dict(tag, source=i, lost_per_kd=loss, spec=sum(want.values())))
                continue
            break
        for i in range(n):
            want = collections.Counter(j for j in g["nbr"][i] if j != i)
            k = r[2][i]
            spec = [float(want.get(j, 0)) if j != i else -float(sum(want.values())) for j in range(n)]
            if isinstance(k, str) or any(abs(a - b) > 1e-9 for a, b in zip(k, spec)):
                rep.violation("kinetics", "geometry:kinetics-neighbours", dict(tag, source=i, got=k, spec=spec))
                break


def _equiv(args):
    m, steps, kin = args[:3]
    us = args[3] if len(args) > 3 else None
    r, wr = os.pipe()
    pid = os.fork()
    if pid == 0:
        os.close(r)
        try:
            sg = rd_rec.build_system(m)
            gg = RDSystem(network=sg.network, space=grid_to_graph(sg.space), state=sg.state, chemostats=sg.chemostats)
            out = {}
            for name, system in (("grid", sg), ("graph", gg)):
                # (every other pair is run with the script in units that are not the system's: whatever the graph route hands
                #  to the engine - node volumes, surfaces, distances - must be converted as on the grid route)
                kw = {"units_system": UnitsSystem(space=us[0], time=us[1], quantity=us[2])} if us else {}
                script = RDScript(system=system, t_sample=[UnitValue(0.0, "s")], t_max=UnitValue(-1.0, "s"), time_step=UnitValue(1.0 / 512, "s"),
                                  sampling_policy="no_sampling", **kw)
                eng = build.make_engine("euler", lib=_lib)
                eng.setup(script)
                eng.iterate_n(steps)
                out[name] = [float(v) for v in engine_rec.raw_state(_lib, system.state_size())]
                eng.finalize()
            if kin:
                out["kgrid"] = [float(v) for v in kinetics.compute_dstatedt(sg).value]
                out["kgraph"] = [float(v) for v in kinetics.compute_dstatedt(gg).value]
            msg = pickle.dumps(("ok", out))
        except BaseException as e:  # noqa
            msg = pickle.dumps(("exc", repr(e)[:300]))
        with os.fdopen(wr, "wb") as f:
            f.write(msg)
        os._exit(0)
    os.close(wr)
    data = engine_rec._read_all(r, 60, pid)
    _, status = os.waitpid(pid, 0)
    if data is None or os.WIFSIGNALED(status) or not data:
        return ("crash",)
    return pickle.loads(data)


def equivalence_checks(rep, rng, n, steps):
    jobs = []
    for _ in range(n):
        m = rd_model.random_model(rng, graph=False, max_cells=8)
        g = m.space
        # python kinetics resolve one edge per pair: only compare them when no periodic axis is shorter than 3
        kin = all((not p) or s >= 3 for p, s in zip(g["bc"], (g["w"], g["h"], g["d"])))
        us = [None, ("nm", "ms", "molecule"), None, ("mm", "s", "nmol"), None, ("dm", "min", "molecule")][len(jobs) % 6]
        jobs.append((m, steps, kin, us))
    ctx = mp.get_context("fork")
    with ctx.Pool(util.NCPU, initializer=_init) as pool:
        res = pool.map(_equiv, jobs, chunksize=2)
    for (m, _, kin, us), r in zip(jobs, res):
        rep.case(["equiv", m.key(), us])
        if r[0] != "ok":
            rep.violation("equivalence", "geometry:equivalence-run-" + r[0], {"model": m.strengths_dict(), "info": list(r)})
            continue
        o = r[1]
        a, b = np.array(o["grid"]), np.array(o["graph"])
        if not np.allclose(a, b, rtol=1e-9, atol=1e-12):
            rep.violation("equivalence", "geometry:euler-grid-vs-graph", {"model": m.strengths_dict(), "script_units": us, "grid": o["grid"], "graph": o["graph"]})
        if kin and not np.allclose(o["kgrid"], o["kgraph"], rtol=1e-9, atol=1e-12):
            rep.violation("equivalence", "geometry:kinetics-grid-vs-graph", {"model": m.strengths_dict(), "grid": o["kgrid"], "graph": o["kgraph"]})


def run(tier, selftest=False, only=None):
    rep = Report(PROP, tier)
    rep.rule = ("model: every grid shape up to 3 (thorough 4) cells per axis x the 8 boundary modes: bijection, the three "
                "neighbour descriptions agree with multiplicity, symmetry, the pair test, the graph of the grid (TLC); "
                "implementation: for every such grid all cells / pairs / position forms / out-of-grid positions through the "
                "RDGridSpace API, grid_to_graph, the engine's neighbour multiset revealed by one-hot diffusion steps, and "
                "rate law + Euler trajectories of random systems on grids vs their graphs; distinct = distinct grids / systems")
    rep.assumptions = ["Python kinetics are compared grid-vs-graph only when no periodic axis is shorter than 3 (they resolve one edge per node pair)"]
    seed = util.seed()
    rng = random.Random(seed * 3 + 15)
    cfgname = "MC_Geometry"
    if tier == "thorough":
        tlc.write_cfg("MC_Geometry4", open(tlc.workdir() + "/MC_Geometry.cfg").read().replace("MaxSide = 3", "MaxSide = 4"))
        cfgname = "MC_Geometry4"
    r = tlc.run("MC_Geometry", cfg=cfgname, timeout=3000, heap="8g")
    rep.add_tlc("MC_Geometry", r)
    if not r.ok:
        if r.violated:
            rep.violation("model", "model:geometry:" + r.violated, {"tlc": r.tail(40)})
        else:
            raise MachineryError("TLC failed: %s\n%s" % (r.error, r.tail(20)))
    rep.exhaustive = True
    # for ALL grid sizes (Apalache, symbolic): the engine's neighbour arithmetic stays inside the mesh or says "no neighbour"
    apalache.obligations(rep, "GridInd",
                         [("flattened cell index inside the mesh", "Init", "CellSafe", 0),
                          ("neighbour index inside the mesh or -1", "Init", "NbrSafe", 0),
                          ("fully periodic grids always have a neighbour", "Init", "PeriodicTotal", 0)],
                         [("no bounds test before flattening", [("Nbr == IF InB(X1, Y1, Z1) THEN Idx(X1, Y1, Z1) ELSE -1", "Nbr == Idx(X1, Y1, Z1)")], "Init", "NbrSafe", 0),
                          ("x wrapped with the height", [("(w + x + DX) % w", "(w + x + DX) % h")], "Init", "PeriodicTotal", 0)])
    grids = [json.loads(tlc.unquote_tla_json(l)) for l in r.out.splitlines() if l.startswith('<<"PROGRAM"')]
    if r.ok and len(grids) < 216:
        raise MachineryError("only %d grids emitted" % len(grids))
    for g in grids:
        with rep.guard("api", {"w": g["w"], "h": g["h"], "d": g["d"], "bc": g["bc"]}):
            api_checks(rep, g)
    engine_checks(rep, grids)
    stochastic_engine_checks(rep, grids)
    equivalence_checks(rep, rng, 150 if tier == "quick" else 2000, 200 if tier == "quick" else 1000)
    rep.traces = len(grids)
    g = grids[len(grids) // 2]
    rep.sample({"grid": [g["w"], g["h"], g["d"]], "periodic": g["bc"], "neighbours_of_cell_0": g["nbr"][0], "graph_edges": g["edges"][:6]})
    if selftest:
        probe = Report("C15-selftest", "quick")
        import copy
        bad = copy.deepcopy([x for x in grids if x["w"] * x["h"] * x["d"] >= 4][0])
        bad["nbr"][0] = bad["nbr"][0][1:]
        api_checks(probe, bad)
        rep.selftest("a neighbour removed from the expected list is noticed", len(probe.violations) > 0)
    return rep.finish()


def replay(rp):
    return run("quick")
