"""C11 - The native engine is memory-safe on every valid script (sanitizer build as the observer)."""
import json
import multiprocessing as mp
import os
import pickle
import random
import re
import subprocess

from .. import engine_hist as H
from .. import rd_model
from ..vlib import apalache, build, tlc, util
from ..vlib.report import MachineryError, Report

PROP = "C11"


def signature(text):
    m = re.search(r"ERROR: AddressSanitizer: ([\w-]+)", text)
    if m:
        f = re.search(r"#\d+ 0x[0-9a-f]+ in ([\w:~<>]+)", text)
        fn = f.group(1) if f else "?"
        for fr in re.finditer(r"#\d+ 0x[0-9a-f]+ in ([\w:~<>]+)[^\n]*strengths_engine", text):
            fn = fr.group(1)
            break
        return "san:asan:%s:%s" % (m.group(1), fn[:60])
    m = re.search(r"runtime error: ([^\n]{0,80})", text)
    if m:
        return "san:ubsan:" + re.sub(r"\b\d[\d.]*\b", "N", re.sub(r"0x[0-9a-fA-F]+", "ADDR", m.group(1)))[:70]
    m = re.search(r"Assertion '([^']*)' failed", text)
    if m:
        if "poisson" in text:
            return "san:assert:poisson_distribution-mean-not-positive"
        return "san:assert:" + m.group(1)[:60]
    return "san:crash"


def run_batch(args):
    """returns list of (job index, outcome, report)"""
    flavour, libpath, jobs, tag = args
    d = util.subdir("san_%s" % tag)
    jf, pf = os.path.join(d, "jobs.json"), os.path.join(d, "progress.txt")
    with open(jf, "w") as f:
        json.dump(jobs, f)
    env = dict(os.environ, LD_PRELOAD=build.asan_runtime(), PYTHONPATH=util.VERIF, PYTHONWARNINGS="ignore",
               ASAN_OPTIONS="detect_leaks=0:halt_on_error=1:symbolize=1:log_path=%s/asan" % d,
               UBSAN_OPTIONS="print_stacktrace=1:halt_on_error=1:log_path=%s/ubsan" % d)
    out = []
    start = 0
    while start < len(jobs):
        open(pf, "w").close()
        for f in os.listdir(d):
            if f.startswith(("asan", "ubsan")):
                os.remove(os.path.join(d, f))
        # no pipes: the sanitizer's symbolizer child would keep them open after the driver has died
        so, se = os.path.join(d, "stdout.txt"), os.path.join(d, "stderr.txt")
        with open(so, "w") as fo, open(se, "w") as fe:
            proc = subprocess.Popen(["timeout", "-k", "3", "900", "/venv/bin/python", "-m", "harness.san_driver", libpath, jf, pf, str(start)],
                                    env=env, stdout=fo, stderr=fe, stdin=subprocess.DEVNULL, cwd=util.VERIF, start_new_session=True)
            try:
                proc.wait(timeout=960)
            except subprocess.TimeoutExpired:
                pass
            try:
                os.killpg(proc.pid, 9)          # whatever is left of that session (symbolizer, stuck driver)
            except ProcessLookupError:
                pass
            proc.wait()

        class _P:
            returncode = proc.returncode
            stderr = open(se, errors="replace").read()
        p = _P()
        prog = open(pf).read().split("\n")
        done = "DONE" in prog
        last_begin = None
        for line in prog:
            m = re.match(r"BEGIN (\d+)", line)
            if m:
                last_begin = int(m.group(1))
            m = re.match(r"END (\d+) (\w+)", line)
            if m:
                out.append((int(m.group(1)), m.group(2), line[:200]))
        if done:
            break
        if last_begin is None:
            return out + [(-1, "driver-failed", (p.stderr or "")[-800:])]
        report = (p.stderr or "")[-3000:]
        for f in os.listdir(d):
            if f.startswith(("asan", "ubsan")):
                report += "\n" + open(os.path.join(d, f)).read()[:4000]
        kind = "timeout" if (p.returncode == 124 or "Timeout (0:00:30)!" in (p.stderr or "")) else "report"
        out.append((last_begin, kind, report))
        start = last_begin + 1
    return out


def valgrind_batch(args):
    """jobs under valgrind memcheck (uninitialised values, invalid reads / writes that ASan's redzones miss).
    Only errors with a frame inside the engine library count; the interpreter's own noise is ignored."""
    libpath, jobs, tag = args
    d = util.subdir("vg_%s" % tag)
    jf, pf, lf = os.path.join(d, "jobs.json"), os.path.join(d, "progress.txt"), os.path.join(d, "vg.log")
    with open(jf, "w") as f:
        json.dump(jobs, f)
    env = dict(os.environ, PYTHONPATH=util.VERIF, PYTHONWARNINGS="ignore", PYTHONMALLOC="malloc")
    with open(os.path.join(d, "out.txt"), "w") as fo:
        proc = subprocess.Popen(["timeout", "-k", "5", "1500", "valgrind", "--error-exitcode=0", "--log-file=" + lf, "--num-callers=14",
                                 "--track-origins=yes", "--error-limit=no", "/venv/bin/python", "-m", "harness.san_driver", libpath, jf, pf, "0"],
                                env=env, stdout=fo, stderr=fo, stdin=subprocess.DEVNULL, cwd=util.VERIF, start_new_session=True)
        proc.wait()
        try:
            os.killpg(proc.pid, 9)
        except ProcessLookupError:
            pass
    prog = open(pf).read() if os.path.exists(pf) else ""
    done = "DONE" in prog
    log = open(lf, errors="replace").read() if os.path.exists(lf) else ""
    blocks = re.split(r"\n==\d+== \n", log)
    hits = []
    for b in blocks[1:]:
        if re.search(r"(engine_vg\.so|\.hpp:\d+|engine\.cpp:\d+)", b) and re.search(r"==\d+==\s+(at|by) 0x", b):
            first = re.sub(r"==\d+== ", "", b.strip().split("\n")[0])
            if first.startswith(("HEAP SUMMARY", "LEAK SUMMARY", "ERROR SUMMARY")) or "lost in loss record" in b:
                continue
            hits.append(re.sub(r"==\d+== ", "", b)[:1500])
    return {"done": done, "hits": hits, "njobs": len(jobs), "progress_tail": prog[-200:]}


def valgrind_stage(rep, jobs, label):
    lib = build.build_engine("vg")
    clean = [{k: v for k, v in j.items() if not k.startswith("_")} for j in jobs]
    nb = min(util.NCPU, max(1, len(jobs) // 8))
    ctx = mp.get_context("fork")
    with ctx.Pool(nb) as pool:
        res = pool.map(valgrind_batch, [(lib, clean[b::nb], "%s_%d" % (label, b)) for b in range(nb)])
    for b, r in enumerate(res):
        if not r["done"]:
            rep.violation("valgrind/" + label, "vg:run-did-not-finish", {"progress": r["progress_tail"]})
        for h in r["hits"][:3]:
            kind = h.strip().split("\n")[0][:60]
            fn = re.search(r"(?:at|by) 0x[0-9A-F]+: ([\w:~<>]+)[^\n]*(?:engine_vg|\.hpp|engine\.cpp)", h)
            rep.violation("valgrind/" + label, "vg:%s:%s" % (re.sub(r"\d+", "N", kind), fn.group(1) if fn else "?"), {"report": h})
    for j in jobs:
        rep.case([label, "vg", j["id"], j.get("_desc")])
    rep.traces += len(jobs)


def model_jobs(rng, n):
    jobs = []
    for k in range(n):
        mode = k % 4
        if mode == 0:      # degenerate grids: size 1, periodic axes of length 1 and 2
            m = rd_model.random_model(rng, graph=False, max_cells=4)
            m.space["bc"] = (True, True, rng.random() < 0.5)
        elif mode == 1:    # graphs with isolated nodes, self-loops and parallel edges
            m = rd_model.random_model(rng, graph=True, multigraph=True, max_cells=4)
        elif k % 8 == 2:   # sizes beyond the small ones: many reaction channels, species, cells, neighbours
            m = rd_model.large_model(rng, graph=bool((k // 8) % 2))
        else:
            m = rd_model.random_model(rng, max_cells=4)
        engine = H.KINDS[k % 3]
        policy = ["on_t_sample", "on_iteration", "on_interval", "no_sampling"][(k // 3) % 4]
        isp = ["auto", "none", "Poisson", "redist"][(k // 12) % 4] if engine != "euler" or (k // 12) % 4 in (0, 1) else "auto"
        dt = 0.01
        ts = rng.choice([[0.0], [0.0, 0.05, 0.05, 0.1], [0.02, 0.3], [0.0, 0.01, 5.0]])     # the last one leaves an empty tail
        tmax = rng.choice([None, None, 0.2, 0.0])
        jobs.append({"id": "m%d" % k, "kind": "model", "model": pickle.dumps(m).hex(), "engine": engine, "seed": rng.randint(0, 10 ** 6),
                     "policy": policy, "isp": isp, "iters": 40, "ts": ts, "dt": dt, "tmax": tmax,
                     "_desc": {"engine": engine, "policy": policy, "isp": isp, "ts": ts, "tmax": tmax, "model": m.strengths_dict()}})
    return jobs


def history_jobs(rng, tier):
    jobs = []
    for kind in H.KINDS:
        for calls in H.exhaustive_single(2 if tier == "quick" else 3):
            h = H.mk_history("x", calls, {"e1": kind})
            jobs.append({"id": "h%d" % len(jobs), "kind": "history", "history": h, "_desc": {"calls": calls, "kind": kind}})
    for kind in H.KINDS:                   # one object switching between the grid and the graph implementation
        for calls in H.exhaustive_switching(4):
            h = H.mk_history("x", calls, {"e1": kind}, cfgs=H.cfgs_mixed(kind))
            jobs.append({"id": "w%d" % len(jobs), "kind": "history", "history": h, "_desc": {"calls": calls, "kind": kind, "spaces": "mixed"}})
    for h in H.handover_histories():       # two objects, never alive at the same time: safe under finding F6
        jobs.append({"id": "o%d" % len(jobs), "kind": "history", "history": h, "_desc": {"calls": h["calls"], "kinds": h["kinds"]}})
    for i in range(60 if tier == "quick" else 600):
        kind = H.KINDS[i % 3]
        h = H.mk_history("x", H.random_history(rng, rng.randint(8, 30)), {"e1": kind})
        jobs.append({"id": "r%d" % len(jobs), "kind": "history", "history": h, "_desc": {"calls": h["calls"], "kind": kind}})
    return jobs


def dispatch(rep, flavour, jobs, label):
    lib = build.build_engine(flavour)
    clean = [{k: v for k, v in j.items() if not k.startswith("_")} for j in jobs]
    nb = min(util.NCPU, max(1, len(jobs) // 20))
    batches = [(flavour, lib, clean[b::nb], "%s_%d" % (label, b)) for b in range(nb)]
    ctx = mp.get_context("fork")
    with ctx.Pool(nb) as pool:
        res = pool.map(run_batch, batches)
    nrep = 0
    for b, outs in enumerate(res):
        for idx, outcome, text in outs:
            if idx < 0:
                raise MachineryError("sanitizer driver failed: %s" % text)
            job = jobs[b + idx * nb]
            rep.case([label, job["id"], job.get("_desc")])
            if outcome in ("report", "timeout"):
                nrep += 1
                sig = signature(text) if outcome == "report" else "san:timeout"
                rep.violation("sanitizer/" + label, sig, {"job": job.get("_desc"), "report": text[-1500:], "build": flavour},
                              replay={"kind": "san-job", "flavour": flavour, "job": {k: v for k, v in job.items() if not k.startswith("_")}})
    rep.traces += len(jobs)
    return nrep


def run(tier, selftest=False, only=None):
    rep = Report(PROP, tier, level="exploration")
    rep.rule = ("model: index safety of the engine's hand-computed offsets for all small shapes and of the sampling cursor read in the "
                "code's evaluation order (EngineMem.tla; the order before fix F2 is kept as a spec mutant that must violate CursorSafe); "
                "implementation: specification-derived inputs - all single-object lifecycle histories of depth 2 (thorough 3) x engine "
                "kinds, random longer ones, and seeded models x engines x sampling policies x processing modes including degenerate "
                "grids (size 1, periodic axes of length 1 and 2), graphs with isolated nodes, self-loops and parallel edges, sample "
                "lists with unreachable tails - executed through the Python API against the engine compiled with ASan + UBSan "
                "(-fno-sanitize-recover); any report is a violation; the Euler jobs are repeated with _GLIBCXX_ASSERTIONS; "
                "distinct = distinct jobs")
    rep.assumptions = [
        "observers = AddressSanitizer + UndefinedBehaviorSanitizer of clang 14 (+ libstdc++ assertions for the deterministic engine) and "
        "valgrind memcheck (uninitialised values; only errors with a frame inside the engine library are counted); what they do not "
        "instrument is not seen",
        "two-object histories are excluded: dereferencing a simulation deleted through another engine object is finding F6 (C10)",
        "stochastic engines are not run with _GLIBCXX_ASSERTIONS beyond one probe job: std::poisson_distribution is constructed with "
        "mean 0 for every empty cell / channel (known finding F16)",
    ]
    seed = util.seed()
    rng = random.Random(seed * 43 + 11)
    r = tlc.run("EngineMem", cfg="MC_EngineMem", timeout=1200, heap="8g")
    rep.add_tlc("EngineMem (offsets of all small shapes, cursor read order)", r)
    if not r.ok:
        if r.violated:
            rep.violation("model", "model:enginemem:" + r.violated, {"tlc": r.tail(30)})
        else:
            raise MachineryError("TLC failed: %s\n%s" % (r.error, r.tail(20)))
    old = tlc.run("EngineMem", cfg="MC_EngineMemOld", timeout=1200, heap="8g")
    rep.selftest("spec-mutant: reading t_samples[pos] before the bound test violates CursorSafe", old.violated == "CursorSafe", str(old.violated))
    # the same two facts for ALL sizes (Apalache, symbolic): flat offsets inside their arrays, cursor read after the bound test
    apalache.obligations(rep, "OffsetsInd",
                         [("initial states satisfy the invariant", "Init", "IndInv", 0),
                          ("the invariant is inductive", "IndInit", "IndInv", 1),
                          ("the invariant implies offset and cursor safety", "IndInit", "Safe", 0)],
                         [("mesh_x one entry short", [("In(i * nS + s, nC * nS) ", "In(i * nS + s, nC * nS - 1) ")], "IndInit", "Safe", 0),
                          ("trajectory offset uses the species stride for the cell", [("k * nC * nS + s * nC + i", "k * nC * nS + s * nS + i")], "IndInit", "Safe", 0),
                          ("cursor read without the bound test (code before fix F2)", [("  /\\ pos < nTs\n", "  /\\ pos <= nTs\n")], "IndInit", "IndInv", 1)])
    hj = history_jobs(rng, tier)
    mj = model_jobs(rng, 240 if tier == "quick" else 3000)
    dispatch(rep, "san", hj, "histories")
    dispatch(rep, "san", mj, "models")
    ej = [j for j in mj if j["engine"] == "euler"]
    dispatch(rep, "sanassert", ej, "euler-with-library-assertions")
    probe = [j for j in mj if j["engine"] == "tauleap"][:1]
    dispatch(rep, "sanassert", probe, "stochastic-probe-with-library-assertions")
    vj = mj[:96] + hj[:32] if tier == "quick" else mj[:1000] + hj[:400]
    valgrind_stage(rep, vj, "memcheck")
    rep.extra["jobs"] = {"histories": len(hj), "models": len(mj), "euler_assert": len(ej), "valgrind_memcheck": len(vj)}
    rep.sample(hj[5]["_desc"])
    rep.sample(mj[1]["_desc"])
    if selftest:
        rep.selftest("a sanitizer report is classified", signature("==1==ERROR: AddressSanitizer: heap-buffer-overflow on address\n #0 0x1 in Foo::Bar() x.hpp") .startswith("san:asan:heap-buffer-overflow"))
    return rep.finish()


def replay(rp):
    r = rp.get("replay") or {}
    if r.get("kind") != "san-job":
        return 2
    rep = Report(PROP, "quick", level="exploration")
    n = dispatch(rep, r["flavour"], [dict(r["job"], _desc=r["job"].get("id"))], "replay")
    rep.case("replay-2")
    return rep.finish()
