"""C07 - Stochastic engines take only legal steps, at the rates of the master equation."""
import json
import math
import os
import random
from fractions import Fraction as Fr

import numpy as np

from .. import rd_eval, rd_model, rd_rec
from ..vlib import tlc, util
from ..vlib.report import MachineryError, Report

PROP = "C07"
DELTA = 1e-12        # tail probability allowed to each statistical test


def model_items(rng, n):
    items = []
    for _ in range(n):
        m = rd_model.random_model(rng, max_cells=3, max_mol=3)
        c = m.spec_cfg()
        c["x0"] = [[int(m.state[s][i]) for s in range(c["nS"])] for i in range(c["nC"])]
        items.append(c)
    return items


def model_check(rep, tier, seed, label="C07"):
    rng = random.Random(seed * 613 + 7)
    n = 50 if tier == "quick" else 400
    items = model_items(rng, n)
    p = os.path.join(util.subdir("eval"), "mc_rdstep_%s.json" % label)
    with open(p, "w") as f:
        json.dump(items, f)
    r = tlc.run("MC_RDStep", env={"IN_FILE": p}, timeout=3000, coverage=True)
    rep.add_tlc("MC_RDStep(%d configurations, depth 5 / leap 2)" % n, r)
    if not r.ok:
        if r.violated:
            rep.violation("model", "model:rdstep:" + r.violated, {"tlc": r.tail(80)})
        else:
            raise MachineryError("TLC failed: %s\n%s" % (r.error, r.tail(25)))
    cov = r.coverage()
    for a in ("FireAct", "MoveAct", "LeapAct"):
        if cov.get(a, (0, 0))[0] == 0:
            raise MachineryError("vacuous model run: %s produced no state" % a)
    rep.extra["model_actions"] = {k: cov[k][1] for k in ("FireAct", "MoveAct", "LeapAct")}


def jobs_for(rng, n, kinds, max_iter, **kw):
    jobs, models = [], {}
    kw.setdefault("big_p", 0.08)
    for i in range(n):
        m = rd_model.random_model(rng, **kw)
        kind = kinds[i % len(kinds)]
        jid = "%s%d" % (kind[0], i)
        jobs.append((jid, m, kind, rng.randint(0, 2 ** 31 - 1), max_iter, rng.choice([0.02, 0.05, 0.1])))
        models[jid] = m
    return jobs, models


def trace_check(rep, jobs, models, label, want_kinds=("gillespie", "tauleap")):
    out = rd_rec.record_many(jobs)
    traces = []
    jobmap = {j[0]: j for j in jobs}
    for jid, res in out.items():
        j = jobmap[jid]
        if res[0] != "ok":
            rep.violation("trace/" + label, "rd-trace:%s:%s" % (res[0], j[2]),
                          {"outcome": list(res)[:2], "kind": j[2], "seed": j[3], "model": models[jid].strengths_dict()},
                          replay={"kind": "rd-run", "model": models[jid].strengths_dict(), "engine": j[2], "seed": j[3],
                                  "max_iter": j[4], "dt": j[5]})
            continue
        tr = res[1]
        tr["id"] = jid
        # a run that recorded no state at all (or states that are not finite numbers) cannot be handed to TLC: it is an
        # outcome of the engine, reported as such
        flat = [v for st in tr["states"] for row in st for v in row]
        if not tr["states"] or any(not isinstance(v, int) and not (isinstance(v, float) and v == v and abs(v) != float("inf")) for v in flat):
            rep.violation("trace/" + label, "rd-trace:%s:%s" % (j[2], "no-state-recorded" if not tr["states"] else "non-finite-state"),
                          {"kind": j[2], "seed": j[3], "model": models[jid].strengths_dict(), "states": tr["states"][:3]},
                          replay={"kind": "rd-run", "model": models[jid].strengths_dict(), "engine": j[2], "seed": j[3],
                                  "max_iter": j[4], "dt": j[5]})
            continue
        traces.append(tr)
    acc, results = rd_rec.validate(traces)
    for r in results:
        rep.add_tlc("Trace_RDStep[%s]" % label, r)
        if not r.ok:
            raise MachineryError("TLC failed on state traces: %s\n%s" % (r.error, r.tail(20)))
    nst = 0
    ndiag = 0
    for tr in traces:
        nst += len(tr["states"])
        rep.case(["rdtrace", tr["kind"], tr["states"][:50], tr["sub"], tr["sto"]], nontrivial=len(tr["states"]) > 2)
        if tr["id"] not in acc:
            j = jobmap[tr["id"]]
            ndiag += 1
            d = rd_rec.diagnose(tr) if ndiag <= 10 else {"violated": "not-diagnosed"}
            clause = d.get("violated") or "illegal-step"
            rep.violation("trace/" + label, "rd-trace:%s:%s" % (tr["kind"], clause),
                          {"diagnosis": d, "kind": tr["kind"], "seed": j[3], "model": models[tr["id"]].strengths_dict(),
                           "cfg": {k: tr[k] for k in ("sub", "sto", "env", "k", "D", "h", "space", "chs")}},
                          replay={"kind": "rd-run", "model": models[tr["id"]].strengths_dict(), "engine": tr["kind"],
                                  "seed": j[3], "max_iter": j[4], "dt": j[5]})
    rep.traces += len(traces)
    rep.extra["steps_validated"] = rep.extra.get("steps_validated", 0) + nst
    if traces:
        t = traces[0]
        rep.sample({"engine": t["kind"], "model": models[t["id"]].strengths_dict(), "first_states": t["states"][:4],
                    "n_states": len(t["states"]), "accepted": t["id"] in acc})
    return traces, acc


# ------------------------------------------------------------------------------------------
# statistics with the specification as oracle

def bernstein_ok(obs, exp, var, delta=DELTA):
    """|obs - exp| within the Bernstein bound for a sum of independent [0,1] variables with total variance var."""
    L = math.log(2 / delta)
    t = math.sqrt(2 * var * L) + L / 3 + 1e-9
    return abs(obs - exp) <= t, t


def gamma_ok(total, n, delta=DELTA):
    """total = sum of n independent Exp(1) variables: Chernoff bounds on both sides."""
    if n == 0:
        return True, 0
    m = total / n
    L = math.log(2 / delta)
    dev = n * (m - 1 - math.log(m)) if m > 0 else float("inf")
    return dev <= L, dev


STAT_MODELS = [
    # name, strengths-side description is derived from the model; small state spaces so states recur
    dict(name="dimer-1cell", species=[{"label": "A"}, {"label": "B"}],
         reactions=[{"sub": {"A": 2}, "prod": {"B": 1}, "kf": Fr(1, 2), "kr": Fr(2)}],
         envs=["a"], space={"type": "grid", "w": 1, "h": 1, "d": 1, "bc": (False, False, False), "hh": 2, "cell_env": [0]},
         state=[[6], [1]]),
    dict(name="trimer-AAB", species=[{"label": "A"}, {"label": "B"}, {"label": "C"}],
         reactions=[{"sub": {"A": 2, "B": 1}, "prod": {"C": 1}, "kf": Fr(1), "kr": Fr(3)}],
         envs=["a"], space={"type": "grid", "w": 1, "h": 1, "d": 1, "bc": (False, False, False), "hh": 2, "cell_env": [0]},
         state=[[5], [3], [0]]),
    dict(name="diff-2env-3cells", species=[{"label": "A", "D": {"a": Fr(1), "b": Fr(1, 2)}}],
         reactions=[], envs=["a", "b"],
         space={"type": "grid", "w": 3, "h": 1, "d": 1, "bc": (True, False, False), "hh": 1, "cell_env": [0, 1, 0]},
         state=[[3, 1, 0]]),
    dict(name="graph-hetero", species=[{"label": "A", "D": Fr(1)}, {"label": "B", "D": Fr(2)}],
         reactions=[{"sub": {"A": 1}, "prod": {"B": 1}, "kf": {"a": Fr(1), "b": Fr(0)}, "kr": Fr(1, 2)}],
         envs=["a", "b"],
         space={"type": "graph", "nodes": [{"hh": 1, "env": 0}, {"hh": 2, "env": 1}, {"hh": 1, "env": 0}],
                "edges": [{"i": 0, "j": 1, "sfc": Fr(2), "dst": Fr(3, 2)}, {"i": 2, "j": 1, "sfc": Fr(1), "dst": Fr(1)}]},
         state=[[2, 1, 0], [0, 1, 1]]),
    dict(name="zero-order-chemostat", species=[{"label": "A", "D": Fr(1)}, {"label": "B", "chstt": True}],
         reactions=[{"sub": {}, "prod": {"A": 1}, "kf": Fr(1)}, {"sub": {"A": 1, "B": 1}, "prod": {"B": 1}, "kf": Fr(1, 2)}],
         envs=["a"], space={"type": "grid", "w": 2, "h": 1, "d": 1, "bc": (False, False, False), "hh": 1, "cell_env": [0, 0]},
         state=[[1, 0], [2, 1]]),
    # a reservoir of two adjacent cells in which the diffusing species is held: jumps between the two change nothing but are
    # events like any other (they take their waiting time); the free cell is fed by, and drains into, the reservoir
    dict(name="chemostat-reservoir", species=[{"label": "A", "D": Fr(1), "chstt": {"r": True}}],
         reactions=[{"sub": {"A": 1}, "prod": {}, "kf": {"c": Fr(1)}}],
         envs=["r", "c"], space={"type": "grid", "w": 3, "h": 1, "d": 1, "bc": (False, False, False), "hh": 1, "cell_env": [0, 0, 1]},
         state=[[5, 5, 0]]),
]


def mk(desc):
    return rd_model.Model(desc["species"], desc["reactions"], desc["envs"], desc["space"], desc["state"])


def gillespie_stats(rep, tier, seed, names=None):
    """Event frequencies and waiting times against the exact generator computed by TLC."""
    import ctypes
    from ..vlib import build
    lib = ctypes.CDLL(build.build_engine("plain"))
    nev = 40000 if tier == "quick" else 400000
    runs = []
    stat_models = STAT_MODELS + [graph_twin(t) for t in STAT_MODELS if t["space"]["type"] == "grid" and not any(t["space"]["bc"])]
    if names is not None:
        stat_models = [t for t in stat_models if t["name"].split("(")[0] in names]
    for di, desc in enumerate(stat_models):
        m = mk(desc)
        tr, ts, traj = rd_rec.record_run(lib, m, "gillespie", seed * 17 + di, nev, cap=None)
        runs.append((desc, m, tr, ts))
    # distinct visited states -> exact rates from the specification
    items = []
    for desc, m, tr, ts in runs:
        seen = {}
        for st in tr["states"]:
            seen.setdefault(json.dumps(st), st)
        c = dict(m.spec_cfg())
        c["states"] = list(seen.values())
        items.append(c)
    rates = rd_eval.evaluate("rates", items, rep, shards=len(items))
    laws = rd_eval.evaluate("laws", [dict(m.spec_cfg(), states=[]) for _, m, _, _ in runs], rep, shards=1)
    for (desc, m, tr, ts), c, rt, lw in zip(runs, items, rates, laws):
        cfg = m.spec_cfg()
        nC, nS = cfg["nC"], cfg["nS"]
        # neighbour target of (i, n): recompute successor deltas from the spec's own tables is not
        # exported; the delta of a diffusion channel is identified through the chemostat flags and
        # the neighbour index list, which TLC exports with the laws (nbr lengths) - we use states.
        table = {}
        for st, r in zip(c["states"], rt):
            chans = []
            for i in range(nC):
                for ri, a in enumerate(r["reac"][i]):
                    chans.append((Fr(a[0], a[1]), ("r", i, ri)))
                for s in range(nS):
                    for n, a in enumerate(r["diff"][i][s]):
                        chans.append((Fr(a[0], a[1]), ("d", i, s, n)))
            a0 = sum(a for a, _ in chans)
            table[json.dumps(st)] = (a0, chans)
        # aggregate over visits: waiting times scaled by a0, and per-channel-class expected counts
        scaled = 0.0
        nsteps = 0
        exp_by_delta, var_by_delta, obs_by_delta = {}, {}, {}
        wait_by_delta = {}      # a0-scaled waiting time, split by the event that ended the wait
        sts = tr["states"]
        nbr = _neighbour_table(m)
        for k in range(len(sts) - 1):
            key = json.dumps(sts[k])
            a0, chans = table[key]
            if a0 == 0:
                rep.violation("stats", "stats:event-from-dead-state", {"model": desc["name"], "state": sts[k]})
                break
            scaled += (ts[k + 1] - ts[k]) * float(a0)
            nsteps += 1
            delta = json.dumps([[sts[k + 1][i][s] - sts[k][i][s] for s in range(nS)] for i in range(nC)])
            obs_by_delta[delta] = obs_by_delta.get(delta, 0) + 1
            wait_by_delta[delta] = wait_by_delta.get(delta, 0.0) + (ts[k + 1] - ts[k]) * float(a0)
            # expected: group channels by the delta they produce (spec semantics of FireRes / MoveRes)
            probs = {}
            for a, ch in chans:
                if a == 0:
                    continue
                d = json.dumps(_delta_of(cfg, nbr, ch))
                probs[d] = probs.get(d, 0) + a / a0
            for d, p in probs.items():
                p = float(p)
                exp_by_delta[d] = exp_by_delta.get(d, 0.0) + p
                var_by_delta[d] = var_by_delta.get(d, 0.0) + p * (1 - p)
        ok, dev = gamma_ok(scaled, nsteps)
        rep.case(["stats-wait", desc["name"], nsteps])
        if not ok:
            rep.violation("stats", "stats:waiting-times:" + desc["name"],
                          {"model": desc["name"], "steps": nsteps, "mean_scaled_wait": scaled / max(nsteps, 1),
                           "chernoff_exponent": dev, "limit": math.log(2 / DELTA)})
        # waiting time and event choice are independent: given ANY event class the scaled wait is still Exp(1)
        for d, n_d in obs_by_delta.items():
            okj, devj = gamma_ok(wait_by_delta[d], n_d)
            rep.case(["stats-wait-given-event", desc["name"], d])
            if not okj:
                rep.violation("stats", "stats:waiting-time-depends-on-event:" + desc["name"],
                              {"model": desc["name"], "delta": json.loads(d), "events": n_d, "mean_scaled_wait_given_event": wait_by_delta[d] / n_d,
                               "chernoff_exponent": devj, "limit": math.log(2 / DELTA)})
        for d in set(exp_by_delta) | set(obs_by_delta):
            o, e, v = obs_by_delta.get(d, 0), exp_by_delta.get(d, 0.0), var_by_delta.get(d, 0.0)
            good, t = bernstein_ok(o, e, v)
            rep.case(["stats-chan", desc["name"], d])
            if not good:
                rep.violation("stats", "stats:event-frequencies:" + desc["name"],
                              {"model": desc["name"], "delta": json.loads(d), "observed": o, "expected": e, "tolerance": t,
                               "steps": nsteps})
        rep.extra.setdefault("stats", []).append({"model": desc["name"], "events": nsteps, "distinct_states": len(table),
                                                  "mean_scaled_wait": round(scaled / max(nsteps, 1), 5),
                                                  "channel_classes": len(exp_by_delta)})


def _neighbour_table(m):
    """Directed neighbour entries (with multiplicity) by the engine's arithmetic - only used to name the
    destination of a diffusion channel when computing the delta it produces."""
    g = m.space
    if g["type"] == "graph":
        n = len(g["nodes"])
        out = [[] for _ in range(n)]
        for e in g["edges"]:
            out[e["i"]].append(e["j"])
            out[e["j"]].append(e["i"])
        return out
    w, h, d, bc = g["w"], g["h"], g["d"], g["bc"]
    out = []
    for i in range(w * h * d):
        x, y, z = i % w, (i % (w * h)) // w, i // (w * h)
        lst = []
        for dx, dy, dz in ((1, 0, 0), (-1, 0, 0), (0, 1, 0), (0, -1, 0), (0, 0, 1), (0, 0, -1)):
            xn, yn, zn = x + dx, y + dy, z + dz
            if bc[0]:
                xn = (w + xn) % w
            if bc[1]:
                yn = (h + yn) % h
            if bc[2]:
                zn = (d + zn) % d
            if 0 <= xn < w and 0 <= yn < h and 0 <= zn < d:
                lst.append(w * h * zn + w * yn + xn)
        out.append(lst)
    return out


def _delta_of(cfg, nbr, ch):
    nC, nS = cfg["nC"], cfg["nS"]
    d = [[0] * nS for _ in range(nC)]
    if ch[0] == "r":
        _, i, r = ch
        for s in range(nS):
            if not cfg["chs"][i][s]:
                d[i][s] += cfg["sto"][r][s]
    else:
        _, i, s, n = ch
        j = nbr[i][n]
        if not cfg["chs"][i][s]:
            d[i][s] -= 1
        if not cfg["chs"][j][s]:
            d[j][s] += 1
    return d


TAU_MODELS = [
    # single channel per observable change: the count of firings in a step is read off the state change
    dict(name="tau-A->B", species=[{"label": "A"}, {"label": "B"}], reactions=[{"sub": {"A": 1}, "prod": {"B": 1}, "kf": Fr(1, 2)}],
         envs=["a"], space={"type": "grid", "w": 1, "h": 1, "d": 1, "bc": (False, False, False), "hh": 1, "cell_env": [0]},
         state=[[4000], [0]], read=lambda a, b: b[0][1] - a[0][1]),
    dict(name="tau-2A->B", species=[{"label": "A"}, {"label": "B"}], reactions=[{"sub": {"A": 2}, "prod": {"B": 1}, "kf": Fr(1, 4)}],
         envs=["a"], space={"type": "grid", "w": 1, "h": 1, "d": 1, "bc": (False, False, False), "hh": 2, "cell_env": [0]},
         state=[[300], [0]], read=lambda a, b: b[0][1] - a[0][1]),
    dict(name="tau-diffusion-into-sink", species=[{"label": "A", "D": Fr(1), "chstt": {"b": True}}], reactions=[],
         envs=["a", "b"], space={"type": "grid", "w": 2, "h": 1, "d": 1, "bc": (False, False, False), "hh": 1, "cell_env": [0, 1]},
         state=[[3000, 0]], read=lambda a, b: a[0][0] - b[0][0]),
]


def graph_twin(desc):
    """the same model on the graph its grid converts to (reflecting axes): the graph engines are separate code"""
    g = desc["space"]
    w, h, d = g["w"], g["h"], g["d"]
    hh = g["hh"]
    nodes = [{"hh": hh, "env": g["cell_env"][i]} for i in range(w * h * d)]
    edges = []
    for i in range(w * h * d):
        x, y, z = i % w, (i % (w * h)) // w, i // (w * h)
        if x < w - 1:
            edges.append({"i": i, "j": i + 1, "sfc": Fr(hh * hh), "dst": Fr(hh)})
        if y < h - 1:
            edges.append({"i": i, "j": i + w, "sfc": Fr(hh * hh), "dst": Fr(hh)})
        if z < d - 1:
            edges.append({"i": i, "j": i + w * h, "sfc": Fr(hh * hh), "dst": Fr(hh)})
    return dict(desc, name=desc["name"] + "(graph)", space={"type": "graph", "nodes": nodes, "edges": edges})


def tauleap_stats(rep, tier, seed):
    import ctypes
    from ..vlib import build
    lib = ctypes.CDLL(build.build_engine("plain"))
    nrep = 6 if tier == "quick" else 40
    dt = 0.01
    for di, desc in enumerate(TAU_MODELS + [graph_twin(t) for t in TAU_MODELS]):
        m = mk(desc)
        runs = []
        for rp in range(nrep):
            tr, ts, traj = rd_rec.record_run(lib, m, "tauleap", seed * 31 + di * 100 + rp, 60, dt=dt, cap=None)
            runs.append(tr)
        seen = {}
        for tr in runs:
            for st in tr["states"]:
                seen.setdefault(json.dumps(st), st)
        c = dict(m.spec_cfg())
        c["states"] = list(seen.values())
        rt = rd_eval.evaluate("rates", [c], rep, shards=1)[0]
        lam = {}
        for st, r in zip(c["states"], rt):
            tot = Fr(0)
            for i in range(c["nC"]):
                for a in r["reac"][i]:
                    tot += Fr(a[0], a[1])
                for s in range(c["nS"]):
                    for a in r["diff"][i][s]:
                        tot += Fr(a[0], a[1])
            lam[json.dumps(st)] = float(tot) * dt
        S = Lam = 0.0
        sq = 0.0
        n = 0
        for tr in runs:
            sts = tr["states"]
            for k in range(len(sts) - 1):
                cnt = desc["read"](sts[k], sts[k + 1])
                l = lam[json.dumps(sts[k])]
                S += cnt
                Lam += l
                sq += (cnt - l) ** 2
                n += 1
        L = math.log(2 / DELTA)
        t = math.sqrt(2 * Lam * L) + L / 3
        rep.case(["tau-mean", desc["name"], n])
        if abs(S - Lam) > t:
            rep.violation("stats", "stats:tauleap-mean:" + desc["name"],
                          {"model": desc["name"], "steps": n, "total_firings": S, "expected": Lam, "tolerance": t})
        # variance of a Poisson equals its mean: sum (cnt-l)^2 ~ Lam with sd ~ sqrt(2 sum l^2 + Lam); generous 8 sd band
        sd = math.sqrt(2 * sum([1]) * 0 + 2 * (Lam ** 2) / max(n, 1) + Lam)
        if abs(sq - Lam) > 8 * sd + 10:
            rep.violation("stats", "stats:tauleap-variance:" + desc["name"],
                          {"model": desc["name"], "steps": n, "sum_sq_dev": sq, "expected": Lam, "sd": sd})
        rep.extra.setdefault("tau_stats", []).append({"model": desc["name"], "steps": n, "firings": S, "expected": round(Lam, 2),
                                                      "sum_sq_dev": round(sq, 2)})


def leap_drift_check(rep, rng, n_models, n_seeds, n_steps, label, chem_p=0.25, dt=0.02, max_mol=6, cap=200, models=None):
    """Tau-leap, any model shape: over many recorded steps x -> x', the summed deviation of every entry from its expected
    change dt * sum_channels rate(x) * effect (rates = the exact generator TLC computes for each visited state, effect with
    the chemostat exemptions) stays within a Bernstein bound; an entry no enabled channel can change must not change at all."""
    import ctypes
    from ..vlib import build
    lib = ctypes.CDLL(build.build_engine("plain"))
    runs = []
    for k in range(n_models if models is None else len(models)):
        if models is not None:
            m = models[k]
        else:
            m = rd_model.random_model(rng, chem_p=chem_p, max_mol=max_mol, max_order=2)
            if m.chem is not None and rng.random() < 0.5:
                m.chem = None
        trs = []
        for sd in range(n_seeds):
            tr, ts, traj = rd_rec.record_run(lib, m, "tauleap", rng.randint(0, 2 ** 31 - 1), n_steps, dt=dt, cap=cap)
            trs.append(tr)
        runs.append((m, trs))
    items = []
    for m, trs in runs:
        seen = {}
        for tr in trs:
            for st in tr["states"][:-1]:
                if all(v >= 0 for row in st for v in row):
                    seen.setdefault(json.dumps(st), st)
        c = dict(m.spec_cfg())
        c["states"] = list(seen.values())
        items.append(c)
    rates = rd_eval.evaluate("rates", items, rep)
    L = math.log(2 / DELTA)
    for (m, trs), c, rt in zip(runs, items, rates):
        cfg = m.spec_cfg()
        nC, nS = cfg["nC"], cfg["nS"]
        nbr = _neighbour_table(m)
        drift, var = {}, {}
        for st, r in zip(c["states"], rt):
            dr = [[0.0] * nS for _ in range(nC)]
            va = [[0.0] * nS for _ in range(nC)]
            for i in range(nC):
                for ri, a in enumerate(r["reac"][i]):
                    if a[0] > 0:
                        eff = _delta_of(cfg, nbr, ("r", i, ri))
                        for ii in range(nC):
                            for s in range(nS):
                                dr[ii][s] += a[0] / a[1] * eff[ii][s]
                                va[ii][s] += a[0] / a[1] * eff[ii][s] ** 2
                for s in range(nS):
                    for n, a in enumerate(r["diff"][i][s]):
                        if a[0] > 0:
                            eff = _delta_of(cfg, nbr, ("d", i, s, n))
                            for ii in range(nC):
                                dr[ii][s] += a[0] / a[1] * eff[ii][s]
                                va[ii][s] += a[0] / a[1] * eff[ii][s] ** 2
            drift[json.dumps(st)] = (dr, va)
        S = [[0.0] * nS for _ in range(nC)]
        V = [[0.0] * nS for _ in range(nC)]
        frozen_bad = None
        steps = 0
        for tr in trs:
            sts = tr["states"]
            for k in range(len(sts) - 1):
                key = json.dumps(sts[k])
                if key not in drift:
                    break                      # a negative amount appeared: beyond the master equation, stop using this run
                dr, va = drift[key]
                steps += 1
                for i in range(nC):
                    for s in range(nS):
                        d = sts[k + 1][i][s] - sts[k][i][s]
                        S[i][s] += d - dt * dr[i][s]
                        V[i][s] += dt * va[i][s]
                        if va[i][s] == 0 and d != 0 and frozen_bad is None:
                            frozen_bad = (i, s, sts[k], sts[k + 1])
        rep.case(["leap-drift", label, m.key()], nontrivial=steps > 0)
        if frozen_bad:
            i, s, a, b = frozen_bad
            flagged = bool(cfg["chs"][i][s])
            rep.violation("leap-drift/" + label, "leap:entry-changed-without-channel:" + ("chemostated" if flagged else "free"),
                          {"cell": i, "species": s, "before": a, "after": b, "model": m.strengths_dict()})
            continue
        for i in range(nC):
            for s in range(nS):
                t = math.sqrt(2 * V[i][s] * L) + 4 * L / 3
                if abs(S[i][s]) > t:
                    rep.violation("leap-drift/" + label, "leap:drift:" + ("chemostated" if cfg["chs"][i][s] else "free-entry"),
                                  {"cell": i, "species": s, "summed_deviation": S[i][s], "tolerance": t, "steps": steps,
                                   "model": m.strengths_dict()})
                    break
            else:
                continue
            break
    rep.extra.setdefault("leap_drift", []).append({"label": label, "models": n_models, "seeds": n_seeds, "steps_per_run": n_steps})


def run(tier, selftest=False, only=None):
    rep = Report(PROP, tier)
    rep.rule = ("model: all behaviours (Gillespie events to depth 5, tau-leap bags of two events to depth 2) of a seeded "
                "family of small configurations; implementation: Gillespie / tau-leap runs of seeded random models "
                "(1-3 species, reactions of order 0-3 with repeated reactants, two environments with zero constants, "
                "grids with all boundary modes and graphs with heterogeneous volumes, chemostat maps) recorded state by "
                "state and validated by TLC: each consecutive pair must be one event possible in the earlier state; "
                "distinct = distinct recorded state traces; statistics: event-class counts and waiting times against "
                "the exact propensities TLC computes for every visited state")
    rep.assumptions = [
        "amounts are recorded in molecules (raw engine output); rate constants, diffusion coefficients, volumes are "
        "small rationals / integer cubes so that the specification's propensities are exact",
        "statistical clauses use Bernstein / Chernoff tail bounds with tail probability 1e-12 per test",
        "tau-leap: per-step firing counts are read from the state change in single-channel models only",
    ]
    seed = util.seed()
    sel = lambda n: only is None or n in only
    if sel("model"):
        model_check(rep, tier, seed)
    if sel("traces"):
        rng = random.Random(seed * 2713 + 77)
        n, it = (240, 150) if tier == "quick" else (3000, 400)
        jobs, models = jobs_for(rng, n, ["gillespie", "gillespie", "gillespie", "tauleap"], it)
        trace_check(rep, jobs, models, "random-models")
        jobs, models = jobs_for(rng, n // 6, ["gillespie"], it, graph=True, multigraph=True)
        trace_check(rep, jobs, models, "multigraphs")
    if sel("stats"):
        gillespie_stats(rep, tier, seed)
        tauleap_stats(rep, tier, seed)
        rng = random.Random(seed * 911 + 78)
        n, sd, st = (40, 16, 30) if tier == "quick" else (300, 40, 40)
        leap_drift_check(rep, rng, n, sd, st, "random-models")
        # the same with tens of molecules per entry: every channel class fires often enough for the bound to bite
        leap_drift_check(rep, rng, (n * 3) // 5, sd, st, "random-models-large-amounts", max_mol=60, cap=2000, dt=0.01)
        # shapes that must not depend on what the random generator draws (a held species at every position, a held reservoir)
        from . import c03
        leap_drift_check(rep, rng, 0, sd, st, "held-species-at-every-position", models=c03.flag_position_models())
        leap_drift_check(rep, rng, 0, sd, st, "held-reservoir-feeds-its-neighbours", models=c03.reservoir_models(), cap=2000, dt=0.01)
    if selftest:
        self_test(rep)
    return rep.finish()


def self_test(rep):
    rng = random.Random(99)
    jobs, models = jobs_for(rng, 12, ["gillespie"], 60)
    out = rd_rec.record_many(jobs)
    traces = []
    for jid, res in out.items():
        if res[0] == "ok" and len(res[1]["states"]) > 6:
            tr = res[1]
            tr["id"] = jid
            traces.append(tr)
    acc, _ = rd_rec.validate(traces)
    if len(acc) != len(traces):
        raise MachineryError("self-test baseline traces rejected")
    import copy
    t = copy.deepcopy(traces[0]); t["id"] = "m1"; t["states"][3][0][0] += 1
    t2 = copy.deepcopy(traces[0]); t2["id"] = "m2"; del t2["states"][2]
    acc, _ = rd_rec.validate([t, t2])
    rep.selftest("one amount incremented in one recorded state", "m1" not in acc)
    if traces[0]["states"][1] != traces[0]["states"][3]:
        rep.selftest("one recorded state dropped (two events in one step)", "m2" not in acc)


def replay(rp):
    rep = Report(PROP, "quick")
    r = rp.get("replay") or {}
    if r.get("kind") != "rd-run":
        print("nothing to replay")
        return 2
    print("replay: re-run %s seed %s on the current tree" % (r["engine"], r["seed"]))
    from strengths import rdsystem_from_dict  # noqa
    # the model is stored in its strengths dictionary form; rebuild the spec side from it is not possible,
    # so the replay re-runs the whole check restricted to this seed family
    return run("quick", only=["traces"])
