"""C04 - Physical results do not depend on the units used to state or report them."""
import ctypes
import itertools
import json
import multiprocessing as mp
import os
import pickle
import random
from fractions import Fraction as Fr

import numpy as np

from .. import engine_rec, serial
from .. import units_oracle as UO
from ..vlib import build, tlc, util
from ..vlib.report import MachineryError, Report
from . import c12

util.ensure_repo_importable()
from strengths import RDGridSpace, UnitArray, Units, UnitsDimensions, UnitsSystem, kinetics, rdscript_from_dict, simulate_script  # noqa: E402
from strengths.coarsegrain import coarsegrain_system  # noqa: E402

PROP = "C04"
_lib = None


def _init():
    global _lib
    _lib = ctypes.CDLL(build.build_engine("plain"))


def _run(d):
    """load the script dictionary, return initial state, rate of change and Euler trajectory in the default units"""
    r, w = os.pipe()
    pid = os.fork()
    if pid == 0:
        os.close(r)
        try:
            sc = rdscript_from_dict(json.loads(json.dumps(d)))
            us0 = serial.US0
            x0 = [float(v) for v in sc.system.state.convert(us0).value]
            dx = [float(v) for v in kinetics.compute_dstatedt(sc.system).convert(us0).value]
            # bare numbers handed to a system are in the system's own units, whatever units its parts were described in:
            # writing every entry back as the bare number that expresses it in those units (entry by entry, then the whole
            # array at once) changes nothing
            sys2 = sc.system.copy()
            for s_ in range(sys2.network.nspecies()):
                for c_ in range(sys2.space.size()):
                    sys2.set_state(s_, c_, float(sys2.get_state(s_, c_).convert(sys2.units_system).value))
            x0w = [float(v) for v in sys2.state.convert(us0).value]
            sys3 = sc.system.copy()
            sys3.state = [float(v) for v in sys3.state.convert(sys3.units_system).value]
            x0a = [float(v) for v in sys3.state.convert(us0).value]
            # the exported right-hand side (one-cell systems), asked in the system's own units and in the default ones
            dxf = None
            if sc.system.space.size() == 1:
                dxf = []
                for usx in (sc.system.units_system, us0):
                    xin = [float(v) for v in sc.system.state.convert(usx).value]
                    r_ = sc.system.make_dxdtf(units_system=usx)(0.0, xin)
                    dxf.append([float(v) for v in UnitArray(np.array(r_, dtype=float),
                                                            Units(usx, UnitsDimensions(space=0, time=-1, quantity=1))).convert(us0).value])
            out = simulate_script(sc, build.make_engine("euler", lib=_lib))
            data = [float(v) for v in out.data.convert(us0).value]
            t = [float(v) for v in out.t.convert(us0).value]
            su = out.data.units.sys
            cg = None
            if isinstance(sc.system.space, RDGridSpace) and not any(sc.system.space.get_boundary_conditions()[a] == "periodical" for a in "xyz"):
                # the coarse-graining route is one more way of running the same description (identity map, and all retained
                # cells of one environment merged pairwise where the map stays valid)
                n = sc.system.space.size()
                env = list(sc.system.space.cell_env)
                pair, groups = [], {}
                for i in range(n):
                    key = (env[i], i // 2)
                    groups.setdefault(key, len(groups))
                    pair.append(groups[key])
                cg = {}
                for name, cmap in (("identity", list(range(n))), ("pairs", pair)):
                    cs = coarsegrain_system(sc.system, cmap)
                    o2 = simulate_script(sc, build.make_engine("euler", lib=_lib), cgmap=cmap)
                    cg[name] = {"x0": [float(v) for v in cs.state.convert(us0).value],
                                "vol": [float(v) for v in cs.space.get_cell_vol_array().convert(us0).value],
                                "data": [float(v) for v in o2.data.convert(us0).value]}
            msg = pickle.dumps(("ok", {"x0": x0, "dxdt": dx, "data": data, "t": t, "cg": cg, "x0w": x0w, "x0a": x0a, "dxf": dxf,
                                       "out_units": [su["space"], su["time"], su["quantity"]]}))
        except BaseException as e:  # noqa
            msg = pickle.dumps(("exc", repr(e)[:300]))
        with os.fdopen(w, "wb") as f:
            f.write(msg)
        os._exit(0)
    os.close(w)
    data = engine_rec._read_all(r, 60, pid)
    _, status = os.waitpid(pid, 0)
    if data is None:
        return ("hang",)
    if os.WIFSIGNALED(status) or not data:
        return ("crash",)
    return pickle.loads(data)


def _run_stochastic(job):
    """job = (script dictionary in default units, engine kind, output units system or None) -> times and data in default units"""
    d, kind, usys = job
    r, w = os.pipe()
    pid = os.fork()
    if pid == 0:
        os.close(r)
        try:
            sc = rdscript_from_dict(json.loads(json.dumps(d)))
            if usys is not None:
                sc.units_system = UnitsSystem(space=usys[0], time=usys[1], quantity=usys[2])
            out = simulate_script(sc, build.make_engine(kind, lib=_lib))
            su = out.data.units.sys
            msg = pickle.dumps(("ok", {"data": [float(v) for v in out.data.convert(serial.US0).value],
                                       "t": [float(v) for v in out.t.convert(serial.US0).value],
                                       "out_units": [su["space"], su["time"], su["quantity"]]}))
        except BaseException as e:  # noqa
            msg = pickle.dumps(("exc", repr(e)[:300]))
        with os.fdopen(w, "wb") as f:
            f.write(msg)
        os._exit(0)
    os.close(w)
    data = engine_rec._read_all(r, 30, pid)
    _, status = os.waitpid(pid, 0)
    if data is None:
        return ("hang",)
    if os.WIFSIGNALED(status) or not data:
        return ("crash",)
    return pickle.loads(data)


def stochastic_output_units(rep, tier, rng, sc, allsys):
    """Last clause of the property for the stochastic engines: with the description and the seed fixed, the units system
    requested for the output (the script's) changes only the scale of the numbers. The engines work internally in that
    system with the quantity forced to 'molecule'; every dimensioned input has to be brought there."""
    nm, nv = (16, 3) if tier == "quick" else (80, 6)
    jobs, meta = [], []
    for mi in range(nm):
        for _ in range(10):          # a model in which something can happen (a reaction with a constant, or a diffusing species)
            m = serial.random_phys_model(rng, max_cells=3, max_order=3)
            if any(r.get("kf") or r.get("kr") for r in m.reactions) or (m.ncells() > 1 and any(sp.get("D") for sp in m.species)):
                break
        times = {"dt": Fr(1, 32), "ts": [Fr(0), Fr(1, 4), Fr(1, 2), Fr(1)], "interval": Fr(1, 8)}
        ref = serial.Describer(sc, {"S1": serial.D, "S2": serial.D}, rng, explicit_p=0.0).script(m, ALL_DEFAULT, EFF_DEFAULT, dict(times, seed=1000 + mi))
        for kind in ("gillespie", "tauleap"):
            jobs.append((ref, kind, None))
            meta.append((mi, kind, None))
            for _ in range(nv):
                u = rng.choice(allsys)
                jobs.append((ref, kind, u))
                meta.append((mi, kind, u))
    ctx = mp.get_context("fork")
    with ctx.Pool(util.NCPU, initializer=_init) as pool:
        res = pool.map(_run_stochastic, jobs, chunksize=2)
    refs = {(mi, kind): r for (mi, kind, u), r in zip(meta, res) if u is None}
    moved = compared = 0
    for (mi, kind, u), job, r in zip(meta, jobs, res):
        if u is None:
            continue
        ref = refs[(mi, kind)]
        if ref[0] != "ok":
            continue            # the reference itself explodes / fails: nothing to compare with (counted below)
        rep.case(["stochastic-output-units", mi, kind, list(u)])
        tag = {"engine": kind, "output_units": list(u), "script": job[0]}
        if r[0] != "ok":
            rep.violation("units", "units:stochastic-run-" + r[0], dict(tag, info=list(r)))
            continue
        compared += 1
        a, b = ref[1], r[1]
        if len(set(a["data"][:len(a["data"]) // max(len(a["t"]), 1)])) and a["data"][:len(a["data"]) // max(len(a["t"]), 1)] != a["data"][-(len(a["data"]) // max(len(a["t"]), 1)):]:
            moved += 1
        if not close_vec(a["t"], b["t"], rtol=1e-9):
            rep.violation("units", "units:stochastic-output-units:times-differ", dict(tag, reference=a["t"][:8], got=b["t"][:8]))
        elif not close_vec(a["data"], b["data"], rtol=1e-9, atol=1e-6):
            rep.violation("units", "units:stochastic-output-units:data-differ", dict(tag, reference=a["data"][:12], got=b["data"][:12]))
        elif b["out_units"] != list(u):
            rep.violation("units", "units:output-units", dict(tag, got=b["out_units"], want=list(u)))
    nref_ok = sum(1 for r in refs.values() if r[0] == "ok")
    rep.extra["stochastic_output_units"] = {"reference_runs": len(refs), "reference_runs_usable": nref_ok, "variants_compared": compared,
                                            "variants_whose_state_moved": moved}
    if nref_ok < len(refs) // 2 or moved < max(1, compared // 6):
        raise MachineryError("stochastic output-units check is vacuous: %s" % rep.extra["stochastic_output_units"])


ALL_DEFAULT = {l: "default" for l in ("script", "system", "network", "species", "reaction", "space", "node", "edge")}
EFF_DEFAULT = {l: "D" for l in ALL_DEFAULT}


def close_vec(a, b, rtol=1e-9, atol=None):
    """atol: per-entry (or scalar) absolute tolerance = 1e-9 x the gross magnitude of the terms the entry is made of"""
    if len(a) != len(b):
        return False
    a, b = np.array(a), np.array(b)
    if atol is None:
        atol = 1e-12 * max(float(np.max(np.abs(a))) if len(a) else 0.0, 1e-300)
    return bool(np.all(np.abs(a - b) <= rtol * np.maximum(np.abs(a), np.abs(b)) + atol))


def run(tier, selftest=False, only=None):
    rep = Report(PROP, tier)
    rep.rule = ("the declaration trees and their effective systems come from Serialize.tla (TLC: recursive reader rule = nearest "
                "definite declaration on all trees); for each seeded physical model the all-default description is the reference; "
                "the same model described under a TLC-emitted tree with two random unit systems (bare numbers re-scaled exactly into "
                "the effective system the specification names, or explicit unit strings in any system) must give the same initial "
                "state, the same compute_dstatedt and the same Euler trajectory in common units (rtol 1e-9); the script's own "
                "units system (= the engine's and the output's) varies with the tree; thorough: every one of the 1100 systems at "
                "every single level; grid descriptions with reflecting boundaries are also run through the coarse-graining route "
                "(identity map and a pairwise merge): coarse initial state, node volumes and un-coarse-grained Euler trajectory "
                "must agree as well; stochastic engines: with description and seed fixed, each of several random output units "
                "systems must give the reference trajectory (times rtol 1e-9, amounts to 1e-6 molecule); "
                "distinct = distinct (model, tree, systems)")
    rep.assumptions = ["requested times and t_max sit at (k + 1/2) dt so that rounding of dt in another time unit cannot change "
                       "the number of steps", "models with reaction order <= 3 and small amounts: every unit system keeps all "
                       "intermediate values inside the binary64 range"]
    seed = util.seed()
    rng = random.Random(seed * 41 + 4)
    trees, keys = c12.tlc_trees(rep, tier)
    sc = UO.scales(rep)
    allsys = list(itertools.product(sc["space"], sc["time"], sc["quantity"]))
    dt = Fr(1, 128)
    times = {"dt": dt, "ts": [Fr(0), dt * Fr(5, 2), dt * Fr(13, 2)], "interval": dt * 3}
    jobs, meta, models = [], [], []
    nmodels, per = (40, 12) if tier == "quick" else (150, 16)
    for mi in range(nmodels):
        m = serial.random_phys_model(rng, max_cells=3, max_order=3)
        models.append(m)
        ref = serial.Describer(sc, {"S1": serial.D, "S2": serial.D}, rng, explicit_p=0.0).script(m, ALL_DEFAULT, EFF_DEFAULT, dict(times, seed=5))
        jobs.append(ref)
        meta.append(("ref", mi, None, None))
        for k in range(per):
            systems = {"S1": rng.choice(allsys), "S2": rng.choice(allsys)}
            t = rng.choice(trees)
            desc = serial.Describer(sc, systems, rng, explicit_p=0.3, aliases=keys, alias_p=0.3)
            jobs.append(desc.script(m, t["decl"], t["eff"], dict(times, seed=5)))
            meta.append(("var", mi, t["decl"], systems))
    if tier == "thorough":      # every unit system at every single level
        m = serial.random_phys_model(rng, max_cells=2, max_order=2)
        models.append(m)
        ref = serial.Describer(sc, {"S1": serial.D, "S2": serial.D}, rng, explicit_p=0.0).script(m, ALL_DEFAULT, EFF_DEFAULT, dict(times, seed=5))
        jobs.append(ref)
        meta.append(("ref", nmodels, None, None))
        for s in allsys:
            for level in ALL_DEFAULT:
                decl = dict(ALL_DEFAULT)
                decl[level] = "S1"
                tt = [t for t in trees if all(t["decl"].get(l) == ("S1" if l == level else "default") for l in decl)]
                if not tt:
                    continue
                desc = serial.Describer(sc, {"S1": s, "S2": serial.D}, rng, explicit_p=0.0)
                jobs.append(desc.script(m, tt[0]["decl"], tt[0]["eff"], dict(times, seed=5)))
                meta.append(("var", nmodels, tt[0]["decl"], {"S1": s}))
    build.build_engine("plain")
    ctx = mp.get_context("fork")
    with ctx.Pool(util.NCPU, initializer=_init) as pool:
        res = pool.map(_run, jobs, chunksize=4)
    refs = {}
    for (kind, mi, decl, systems), d, r in zip(meta, jobs, res):
        if kind == "ref":
            if r[0] != "ok":
                raise MachineryError("reference description failed: %s" % (r,))
            refs[mi] = r[1]
    # gross magnitude of the terms of the rate law at the initial state, from the specification (Eval_RD)
    from .. import rd_eval, rd_law
    cs = []
    for mi, m in enumerate(models):
        x0 = refs[mi]["x0"]
        nC = m.ncells()
        st = [[Fr(x0[s * nC + i]).limit_denominator(10 ** 6) for i in range(nC)] for s in range(len(m.species))]
        cs.append((m, st))
    spec = rd_eval.evaluate("flaw", rd_law.spec_items(cs), rep)
    gross = {}
    for mi, ((m, st), sp) in enumerate(zip(cs, spec)):
        nC, nS = m.ncells(), len(m.species)
        g = [float(Fr(*sp[0]["gross"][i][s])) for s in range(nS) for i in range(nC)]
        gross[mi] = (np.array(g), max(max(refs[mi]["x0"]) if refs[mi]["x0"] else 0.0, 1e-300))
    ncg = 0
    for (kind, mi, decl, systems), d, r in zip(meta, jobs, res):
        if kind == "ref":
            continue
        rep.case(["var", mi, decl, systems, json.dumps(d, sort_keys=True, default=str)[:2000]])
        tag = {"decl": decl, "systems": systems, "script": d}
        if r[0] != "ok":
            rep.violation("units", "units:run-" + r[0], dict(tag, info=list(r)))
            continue
        ref, got = refs[mi], r[1]
        g, xmax = gross[mi]
        tol = {"x0": 1e-12 * xmax, "dxdt": 1e-9 * g + 1e-12 * float(np.max(g) if len(g) else 0.0), "t": None, "data": 1e-9 * xmax}
        for what in ("x0", "dxdt", "t", "data"):
            if not close_vec(ref[what], got[what], atol=tol[what]):
                levels = sorted(l for l, v in decl.items() if v in ("S1", "S2"))
                rep.violation("units", "units:%s-differs" % what,
                              dict(tag, reference=ref[what][:12], got=got[what][:12], explicit_levels=levels))
                break
        for what, name in (("x0w", "entries-rewritten-as-bare-numbers"), ("x0a", "state-reassigned-as-bare-numbers")):
            if not close_vec(ref["x0"], got[what], atol=tol["x0"]):
                rep.violation("units", "units:x0-differs:" + name, dict(tag, reference=ref["x0"][:12], got=got[what][:12]))
        if got.get("dxf"):
            for k_, vec in enumerate(got["dxf"]):
                if not close_vec(ref["dxdt"], vec, atol=tol["dxdt"]):
                    rep.violation("units", "units:make_dxdtf-differs:" + ("own-units" if k_ == 0 else "default-units"),
                                  dict(tag, reference=ref["dxdt"][:12], got=vec[:12]))
                    break
        if (ref["cg"] is None) != (got["cg"] is None):
            rep.violation("units", "units:coarse-grained-route-availability", dict(tag, reference=ref["cg"] is not None))
        elif ref["cg"]:
            ncg += 1
            for name in ref["cg"]:
                for what, at in (("x0", 1e-12 * xmax), ("vol", None), ("data", 1e-9 * xmax)):
                    if not close_vec(ref["cg"][name][what], got["cg"][name][what], atol=at):
                        rep.violation("units", "units:coarse-grained-%s-differs" % what,
                                      dict(tag, map=name, reference=ref["cg"][name][what][:12], got=got["cg"][name][what][:12]))
                        break
        eff_script = decl["script"] if decl["script"] in ("S1", "S2") else "D"
        want_units = list(systems[eff_script]) if eff_script != "D" else list(serial.D)
        if got["out_units"][1] != want_units[1] or got["out_units"][2] != want_units[2]:
            rep.violation("units", "units:output-units", dict(tag, got=got["out_units"], want=want_units))
    stochastic_output_units(rep, tier, rng, sc, allsys)
    rep.traces = len(jobs)
    rep.extra["variants_also_run_through_coarse_graining"] = ncg
    if ncg == 0:
        raise MachineryError("no description went through the coarse-graining route")
    rep.sample({"reference_script": jobs[0], "variant_declarations": meta[1][2], "variant_systems": meta[1][3]})
    if selftest:
        a = refs[0]
        b = dict(a, data=[v * (1 + 1e-6) for v in a["data"]])
        rep.selftest("a relative change of 1e-6 in the trajectory is noticed", not close_vec(a["data"], b["data"]) or all(v == 0 for v in a["data"]))
    return rep.finish()


def replay(rp):
    return run("quick")
