"""C09 - Sampling contract: which states are recorded, when, and in what shape."""
import json
import random

import numpy as np

from .. import engine_hist as H
from .. import engine_val
from ..vlib import tlc, util
from ..vlib.report import MachineryError, Report

PROP = "C09"

SPEC_MUTANTS = [
    # (name, replacements in Engine.tla, invariant expected to be violated)
    ("lastq0", [("                lastq |-> -1, complete |-> FALSE, stepT |-> <<0>>,",
                 "                lastq |-> 0, complete |-> FALSE, stepT |-> <<0>>,")], "InvOnInterval"),
    ("tmax_ge", [("a.cfg.tmax >= 0 /\\ a.t > a.cfg.tmax THEN", "a.cfg.tmax >= 0 /\\ a.t >= a.cfg.tmax THEN")], "InvFixedEnd"),
    ("tau_strict", [("p = L \\/ a.cfg.ts[p + 1] > a.t}", "p = L \\/ a.cfg.ts[p + 1] >= a.t}")], "InvOnTSample"),
    ("no_flag_reset", [("LET a0 == [a EXCEPT !.done = FALSE]", "LET a0 == a")], None),
]


def model_check(rep, tier):
    if tier == "quick":
        consts = dict(MaxT=4, MaxLen=2, MaxN=4)
    else:
        consts = dict(MaxT=6, MaxLen=3, MaxN=5)
    text = open(tlc.workdir() + "/MC_EngineSampling.cfg").read()
    text = text.replace("MaxT = 4", "MaxT = %d" % consts["MaxT"]).replace("MaxLen = 2", "MaxLen = %d" % consts["MaxLen"]) \
               .replace("MaxN = 4", "MaxN = %d" % consts["MaxN"])
    tlc.write_cfg("MC_EngineSampling_run", text)
    r = tlc.run("MC_EngineSampling", cfg="MC_EngineSampling_run", coverage=True, timeout=3000, heap="16g")
    rep.add_tlc("MC_EngineSampling(%s)" % consts, r)
    if not r.ok:
        if r.violated:
            rep.violation("model", "model:sampling:" + r.violated, {"tlc": r.tail(80)})
        else:
            raise MachineryError("TLC failed: %s\n%s" % (r.error, r.tail(20)))
    cov = r.coverage()
    for a in ("Iterate", "ManualSample"):
        if cov.get(a, (0, 0))[1] == 0:
            raise MachineryError("vacuous model run: %s never taken" % a)
    # non-vacuity: a witness state (two requested times covered by one step, one record) must be reachable
    tlc.write_cfg("MC_EngineSampling_wit", text.split("INVARIANT")[0] + "INVARIANT WitnessTwoTausOneStep\n")
    w = tlc.run("MC_EngineSampling", cfg="MC_EngineSampling_wit", timeout=600)
    if w.violated != "WitnessTwoTausOneStep":
        raise MachineryError("witness state not reachable: the on_t_sample clauses may be vacuous")
    # mutated mechanisms must be rejected by the contract
    for name, repl, inv in SPEC_MUTANTS:
        d = tlc.mutant_dir(name, "Engine", repl)
        m = tlc.run("MC_EngineSampling", cfg="MC_EngineSampling", wd=d, timeout=900)
        rep.selftest("spec-mutant " + name, m.violated is not None and (inv is None or m.violated == inv),
                     "violated=%s expected=%s" % (m.violated, inv))


TIME_UNITS = {"s": 1.0, "ms": 1e-3, "min": 60.0, "ds": 0.1, "h": 3600.0}


def sampling_cfg(rng):
    """The property quantifies over SORTED sample-time lists: a list whose entries are written in different units may lose
    its order by one rounding of the conversion (two equal times, one written "0.6 s" and one 5.999999999999999 ds);
    such a list is outside the property's domain and is drawn again."""
    from .. import engine_rec
    for _ in range(50):
        kind, c = _sampling_cfg(rng)
        sc = engine_rec.make_script(c)
        ts = [float(x) for x in sc.t_sample.convert(sc.units_system).value]
        if all(a <= b for a, b in zip(ts, ts[1:])):
            return kind, c
    raise MachineryError("could not draw a sorted sample-time list")


def _sampling_cfg(rng):
    kind = rng.choice(H.KINDS)
    system = rng.choice(["decay", "birth", "rev", "tri"])
    policy = rng.choice(["on_t_sample", "on_t_sample", "on_iteration", "on_interval", "on_interval", "no_sampling"])
    dt = rng.choice([0.1, 0.25, 0.3, 0.5, 1 / 3, 0.07, 0.001, 0.125])
    nsteps = rng.randint(2, 18)
    if kind == "gillespie":
        span = rng.choice([0.02, 0.05, 0.1, 0.2])      # event-scale horizon
        grain = span / 12
    else:
        span = nsteps * dt
        grain = dt
    L = rng.randint(1, 6)
    ts = []
    for _ in range(L):
        mode = rng.random()
        if mode < 0.25:
            ts.append(rng.randint(0, nsteps) * grain)                 # exactly k*dt as a product
        elif mode < 0.35 and ts:
            ts.append(ts[-1])                                         # duplicate
        elif mode < 0.55 and ts:
            ts.append(ts[-1] + grain * rng.random() * 0.3)            # clustered inside one step
        else:
            ts.append(rng.random() * span)
    if rng.random() < 0.3:
        ts[0] = 0.0
    ts.sort()
    c = dict(system=system, space=rng.choice(["grid", "graph"]), dt=dt, ts=ts, policy=policy, seed=rng.randint(0, 10 ** 6))
    r = rng.random()
    if r < 0.45:
        pass                                                          # default: last requested time
    elif r < 0.6:
        c["tmax"] = ts[-1] * rng.random()                             # before the last requested time
    elif r < 0.75:
        c["tmax"] = ts[-1] + grain * rng.choice([0.5, 1, 2.5])        # after it
    elif r < 0.82:
        c["tmax"] = 0.0
    elif r < 0.92:
        c["tmax"] = rng.randint(0, nsteps) * grain
    else:
        c["tmax"] = -1.0                                              # no limit
    c["interval"] = rng.choice([grain * 0.5, grain, grain * 2.5, span / 3, grain * 3])
    # express everything in another time unit
    u = rng.choice(["s", "s", "ms", "min", "ds", "h"])
    if u != "s":
        f = TIME_UNITS[u]
        c["units"] = {"time": u}
        for k in ("dt", "interval"):
            c[k] = c[k] / f
        if "tmax" in c and c["tmax"] >= 0:
            c["tmax"] = c["tmax"] / f
        c["ts"] = [x / f for x in c["ts"]]
        if rng.random() < 0.3:      # some requested times carry their own unit
            c["ts"] = ["%r s" % (x * f) if rng.random() < 0.5 else x for x in c["ts"]]
    # single quantities stated in a unit that is not the script's (they are converted when handed to the engine)
    fu = TIME_UNITS[u]
    if rng.random() < 0.4:
        v = rng.choice([x for x in ("s", "ms", "min", "ds") if x != u])
        fv = TIME_UNITS[v]
        which = rng.random()
        if which < 0.5 and all(not isinstance(x, str) for x in c["ts"]):
            c["ts"] = [x * fu / fv for x in c["ts"]]
            c["ts_unit"] = v
        if which > 0.3 and c.get("tmax", -1.0) >= 0:
            c["tmax"] = "%r %s" % (c["tmax"] * fu / fv, v)
        if rng.random() < 0.3:
            c["dt"] = "%r %s" % (c["dt"] * fu / fv, v)
        if rng.random() < 0.3:
            c["interval"] = "%r %s" % (c["interval"] * fu / fv, v)
    if rng.random() < 0.35 or c["system"] == "tri":
        c["isp"] = rng.choice(["none", "Poisson", "Poisson", "redist", "auto"])
    r = rng.random()
    if r < 0.12:
        k = rng.randint(1, 3)
        c["ts_first"] = [0.0] + [c["ts"][-1] * 2.5 if not isinstance(c["ts"][-1], str) else 7.0][:k]      # a later last time
    elif r < 0.2:
        c["ts_first"] = [0.0]                                                                              # an earlier one
    elif r < 0.3:
        c["edit_after"] = True
    return kind, c


def sampling_history(rng, hid):
    kind, c = sampling_cfg(rng)
    calls = []
    cfgs = {"S": c}
    if rng.random() < 0.25:
        # the engine object has been used before: an earlier simulation run to completion (released or not) must not
        # leak into what this set-up samples or reports
        cfgs["P"] = H.cfgs_for(kind, c.get("space", "grid"))[rng.choice(["A", "B", "C"])]
        calls += [["setup", "e1", "P"], ["iterate_n", "e1", 200]]
        if rng.random() < 0.5:
            calls.append(["finalize", "e1"])
    calls.append(["setup", "e1", "S"])
    if rng.random() < 0.3:
        calls += [["is_complete", "e1"], ["iterate_n", "e1", 0]]
    budget = rng.randint(5, 60)
    psample = rng.choice([0, 0, 0.1, 0.3])
    for _ in range(budget):
        if rng.random() < psample:
            calls.append(["sample", "e1"])
        if rng.random() < 0.15:
            calls.append(["iterate_n", "e1", rng.randint(1, 4)])
        else:
            calls.append(["iterate", "e1"])
        if rng.random() < 0.05:
            calls.append(["get_progress", "e1"])
    calls += [["get_output", "e1"], ["iterate", "e1"], ["sample", "e1"], ["iterate", "e1"], ["sample", "e1"],
              ["is_complete", "e1"], ["get_output", "e1"], ["finalize", "e1"]]
    return {"id": hid, "kinds": {"e1": kind}, "cfgs": cfgs, "calls": calls, "view": "own"}


def run(tier, selftest=False, only=None):
    rep = Report(PROP, tier)
    rep.rule = ("model: all configurations of the family (kinds x time steps x sample-time lists x t_max x policies x "
                "intervals) x all interleavings of iterate / manual sample within the bounds; implementation: seeded random "
                "scripts (3 engines, grid/graph, 4 policies, sample-time lists with duplicates / clusters / exact multiples "
                "of dt, t_max default / before / after / 0 / none, several time units) driven call by call, every call's "
                "observable outcome validated against Engine.tla; distinct = distinct recorded traces")
    rep.assumptions = [
        "abstract time is an order embedding of the doubles that cross the C boundary (step k -> 2k)",
        "record j holds the state of step recN[j]: compared bit-for-bit with a reference run of the same script and seed "
        "under on_iteration (relies on C08 determinism, which is checked separately)",
        "sampling_interval > 0; non-empty sorted sample-time lists",
    ]
    seed = util.seed()
    sel = lambda n: only is None or n in only
    if sel("model"):
        model_check(rep, tier)
    if sel("traces"):
        rng = random.Random(seed * 104729 + 9)
        n = 800 if tier == "quick" else 8000
        hs = [sampling_history(rng, "c%d" % i) for i in range(n)]
        H.check_histories(rep, hs, "sampling")
        rep.extra["scripts"] = n
    if sel("script-histories"):
        script_history_checks(rep, tier, seed, random.Random(seed * 31 + 909))
    if selftest:
        from . import c10
        c10.self_test(rep)
    return rep.finish()


# ---- histories of one script object (specs/ScriptEdit.tla): TLC generates setter sequences, the object is driven along them ----
def script_history_checks(rep, tier, seed, rng):
    from strengths import (RDNetwork, RDScript, RDSystem, Species, UnitArray, UnitValue, UnitsSystem, rdscript_from_dict, rdscript_to_dict)
    depth = 4 if tier == "quick" else 6
    tlc.write_cfg("MC_ScriptEdit_d", open(tlc.workdir() + "/MC_ScriptEdit.cfg").read().replace("Depth = 3", "Depth = %d" % depth))
    r = tlc.run("MC_ScriptEdit", cfg="MC_ScriptEdit_d", timeout=3000, heap="8g")
    rep.add_tlc("MC_ScriptEdit (every history of %d setter calls on one script object)" % depth, r)
    if not r.ok:
        if r.violated:
            rep.violation("model", "model:scriptedit:" + r.violated, {"tlc": r.tail(30)})
        else:
            raise MachineryError("TLC failed: %s\n%s" % (r.error, r.tail(20)))
    want, tmo = (1500, 40) if tier == "quick" else (20000, 240)
    lines, st = tlc.stream("MC_ScriptEdit", "Gen_ScriptEdit", want, seed=seed * 5 + 2, simulate_depth=16, timeout=tmo)
    if st["error"]:
        raise MachineryError("TLC generator failed: %s\n%s" % (st["error"], "\n".join(st["other_tail"])))
    if len(lines) < want // 10:
        raise MachineryError("TLC generated only %d script histories" % len(lines))
    system = RDSystem(network=RDNetwork(species=[Species(label="A", density=1)], reactions=[]))
    ops = {}

    def observe(sc):
        return {"ts": [float(v) for v in sc.t_sample.convert("ms").value], "tmax": float(sc.t_max.convert("ms").value),
                "dt": float(sc.time_step.convert("ms").value), "interval": float(sc.sampling_interval.convert("ms").value),
                "policy": sc.sampling_policy, "tunit": sc.units_system["time"]}

    def same(got, st_):
        cl = lambda a, b: a == b or abs(a - b) <= 1e-12 * max(abs(a), abs(b))
        return (len(got["ts"]) == len(st_["ts"]) and all(cl(a, float(b)) for a, b in zip(got["ts"], st_["ts"])) and cl(got["tmax"], float(st_["tmax"]))
                and cl(got["dt"], float(st_["dt"])) and cl(got["interval"], float(st_["interval"])) and got["policy"] == st_["policy"]
                and got["tunit"] == st_["tunit"])

    handed = []          # objects the caller handed to setters and still holds

    def quantity(v, u, array=False):
        if u == "bare":
            q = rng.choice([list(v), np.array(v, dtype=float)]) if array else rng.choice([v, float(v)])
        elif array:
            q = UnitArray([float(x) for x in v], u)
        else:
            q = rng.choice([UnitValue(v, u), "%d %s" % (v, u)])
        if isinstance(q, (list, np.ndarray, UnitArray, UnitValue)):
            handed.append(q)
        return q

    def caller_edits():
        while handed:
            q = handed.pop()
            if isinstance(q, np.ndarray):
                q[:] = 77.0
            elif isinstance(q, UnitArray):
                q.value[:] = 77.0
            elif isinstance(q, UnitValue):
                q.value = 77.0
            elif isinstance(q, UnitsSystem):
                q.time = "h"
            else:
                q[:] = [77.0] * len(q)

    for l in lines:
        prog = json.loads(tlc.unquote_tla_json(l))
        hist = [(x["op"], x["args"]) for x in prog["steps"]]
        rep.case({"script-history": hist, "tunit0": prog["tunit0"]})
        tag = {"initial_time_unit": prog["tunit0"], "history": hist}
        with rep.guard("script-history", tag):
            del handed[:]
            # (what the constructor is given is the caller's too: it may be overwritten at the first CallerEdits step)
            t0 = rng.choice([[0, 1], np.array([0.0, 1.0]), UnitArray([0.0, 1.0], prog["tunit0"])])
            us0 = UnitsSystem(time=prog["tunit0"])
            sc = RDScript(system=system, t_sample=t0, time_step=UnitValue(1, "ms"), sampling_interval=UnitValue(1, "s"), units_system=us0)
            handed += [t0, us0]
            kept = []
            for k, st_ in enumerate(prog["steps"]):
                op, a = st_["op"], st_["args"]
                ops[op] = ops.get(op, 0) + 1
                try:
                    if op == "set_t_sample":
                        sc.t_sample = quantity(a["l"], a["u"], array=True)
                    elif op == "set_t_max":
                        sc.t_max = quantity(a["v"], a["u"])
                    elif op == "set_t_max_default":
                        sc.t_max = "default"
                    elif op == "set_dt":
                        sc.time_step = quantity(a["v"], a["u"])
                    elif op == "set_interval":
                        sc.sampling_interval = quantity(a["v"], a["u"])
                    elif op == "set_policy":
                        sc.sampling_policy = a["p"]
                    elif op == "set_units":
                        us_ = rng.choice([UnitsSystem(time=a["u"]), {"time": a["u"]}])
                        sc.units_system = us_
                        if isinstance(us_, UnitsSystem):
                            handed.append(us_)
                    elif op == "caller_edits":
                        caller_edits()
                    elif op == "copy":
                        kept.append((sc, k, prog["steps"][k - 1] if k else None))
                        sc = sc.copy()
                    elif op == "roundtrip":
                        if rng.random() < 0.5:
                            sc = rdscript_from_dict(json.loads(json.dumps(rdscript_to_dict(sc))))
                        else:
                            import os as _os
                            from strengths import load_rdscript, save_rdscript
                            path = _os.path.join(util.subdir("c09_files"), "script_%d.json" % _os.getpid())
                            save_rdscript(sc, path)
                            sc = load_rdscript(path)
                    else:
                        raise MachineryError("unknown operation in a generated script history: %r" % op)
                    got = observe(sc)
                except MachineryError:
                    raise
                except Exception as ex:  # noqa
                    rep.violation("script-history", "script:history:exception:" + op, dict(tag, step=k + 1, exc=repr(ex)[:200]))
                    break
                if not same(got, st_):
                    rep.violation("script-history", "script:history:" + op, dict(tag, step=k + 1, got=got,
                                                                               spec={q: st_[q] for q in ("ts", "tmax", "dt", "interval", "policy", "tunit")}))
                    break
            else:
                for orig, k, st_ in kept:
                    if st_ is not None and not same(observe(orig), st_):
                        rep.violation("script-history", "script:history:original-changed-after-copy", dict(tag, step=k + 1))
                        break
    rep.extra["script_histories_replayed"] = len(lines)
    rep.extra["script_history_calls_by_kind"] = ops
    missing = {"set_t_sample", "set_t_max", "set_t_max_default", "set_dt", "set_interval", "set_policy", "set_units", "copy", "roundtrip", "caller_edits"} - set(ops)
    if missing:
        raise MachineryError("generated script histories never contain: %s" % sorted(missing))


def replay(rp):
    rep = Report(PROP, "quick")
    h = rp.get("replay", {}).get("history")
    if not h:
        print("replay file has no history")
        return 2
    H.check_histories(rep, [h], "replay")
    return rep.finish()
