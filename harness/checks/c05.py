"""C05 - Arithmetic on quantities is arithmetic on their SI values, or an error."""
import itertools
import json
import operator
import os
import random
from fractions import Fraction as Fr

import numpy as np

from .. import units_oracle as UO
from ..vlib import tlc, util
from ..vlib.report import MachineryError, Report

util.ensure_repo_importable()
from strengths import UnitArray, UnitValue, Units, UnitsSystem  # noqa: E402
from strengths.units import UnitsDimensions  # noqa: E402

PROP = "C05"
RTOL = 1e-12


def all_systems(sc):
    return list(itertools.product(sc["space"], sc["time"], sc["quantity"]))


def to_float(m):
    return float(UO.mono(m))


def build(x):
    if x["k"] == "num":
        f = UO.mono(x["v"])
        return int(f) if f.denominator == 1 else float(f)
    units = Units(UnitsSystem(space=x["sys"][0], time=x["sys"][1], quantity=x["sys"][2]),
                  UnitsDimensions(space=x["dim"][0], time=x["dim"][1], quantity=x["dim"][2]))
    if x["k"] == "uv":
        return UnitValue(to_float(x["v"]), units)
    return UnitArray([to_float(v) for v in x["vs"]], units)


BIN = {"add": operator.add, "sub": operator.sub, "mul": operator.mul, "div": operator.truediv, "mod": operator.mod,
       "pow": operator.pow, "lt": operator.lt, "le": operator.le, "gt": operator.gt, "ge": operator.ge,
       "eq": operator.eq, "ne": operator.ne}
UNARY = {"neg": operator.neg, "abs": abs, "pos": operator.pos}


def describe(q):
    if isinstance(q, UnitValue):
        return {"type": "UnitValue", "value": q.value, "units": str(q.units)}
    if isinstance(q, UnitArray):
        return {"type": "UnitArray", "value": [float(v) for v in q.value], "units": str(q.units)}
    return {"type": type(q).__name__, "repr": repr(q)[:80]}


def close(a, b):
    return a == b or abs(a - b) <= RTOL * max(abs(a), abs(b))


def matches(got, exp):
    """(ok, why)"""
    k = exp["k"]
    if k == "bool":
        if isinstance(got, (bool, np.bool_)) and bool(got) == exp["b"]:
            return True, ""
        return False, "comparison"
    if k in ("uv", "ua", "irr"):
        want_type = UnitArray if k == "ua" else UnitValue
        if not isinstance(got, want_type):
            return False, "result-type"
        dim = (got.units.dim["space"], got.units.dim["time"], got.units.dim["quantity"])
        if list(dim) != list(exp["dim"]):
            return False, "dimension"
        sys_ = (got.units.sys["space"], got.units.sys["time"], got.units.sys["quantity"])
        # the base unit of a dimension with exponent 0 does not matter physically, but the result is documented
        # to carry the system of the operand whose method ran - checked as well
        if list(sys_) != list(exp["sys"]):
            return False, "unit-system"
        if k == "uv":
            return (True, "") if close(got.value, to_float(exp["v"])) else (False, "value")
        if k == "ua":
            want = [to_float(v) for v in exp["vs"]]
            if len(got.value) != len(want):
                return False, "length"
            return (True, "") if all(close(float(a), b) for a, b in zip(got.value, want)) else (False, "value")
        base = to_float(exp["base"])
        want = base ** (exp["ex"][0] / exp["ex"][1])
        return (True, "") if close(got.value, want) else (False, "value")
    return False, "?"


def fractional_pow_replayable(step, acc_exp):
    """int(d*e) == d*e must hold in binary64 for the (mathematically integral) products, else skip the case."""
    if step["op"] != "pow" or step["x"]["k"] != "num":
        return True
    e = UO.mono(step["x"]["v"])
    if e.denominator == 1:
        return True
    ef = float(e)
    for d in acc_exp["dim"]:
        if (Fr(d) * e).denominator == 1 and int(d * ef) != d * ef:
            return False
    return True


def replay_program(rep, prog, check):
    acc = build(prog["init"])
    acc_exp = prog["init"]
    trail = []
    for si, st in enumerate(prog["steps"]):
        if not fractional_pow_replayable(st, acc_exp):
            return "skipped"
        op, left = st["op"], st["left"]
        x = None if op in UNARY else build(st["x"])
        exp = st["res"]
        snap = (describe(acc), None if x is None else describe(x))
        try:
            if op in UNARY:
                got = UNARY[op](acc)
            elif left:
                got = BIN[op](acc, x)
            else:
                got = BIN[op](x, acc)
            raised = None
        except Exception as e:  # noqa
            got, raised = None, e
        trail.append({"op": op, "operand": st["x"] if op not in UNARY else None, "acc_is_left": left})
        if snap != (describe(acc), None if x is None else describe(x)):
            rep.violation(check, "arith:operand-modified:" + op, {"program": {"init": prog["init"], "steps": trail},
                                                                  "before": snap, "after": (describe(acc), None if x is None else describe(x))},
                          replay={"kind": "units-program", "program": prog})
            return "violation"
        detail = {"program": {"init": prog["init"], "steps": trail}, "expected": exp,
                  "got": describe(got) if raised is None else {"raised": repr(raised)[:200]}}
        xkind = "-" if op in UNARY else st["x"]["k"]
        where = "%s:%s-%s:%s" % (op, acc_exp["k"], xkind, "acc-left" if left else "acc-right")
        if exp["k"] == "err":
            if raised is None:
                sig = "arith:returns-exception-object:" + where if isinstance(got, BaseException) else "arith:no-error:" + where
                rep.violation(check, sig, detail, replay={"kind": "units-program", "program": prog})
                return "violation"
            return "ok"
        if raised is not None:
            rep.violation(check, "arith:unexpected-exception:" + where, detail, replay={"kind": "units-program", "program": prog})
            return "violation"
        ok, why = matches(got, exp)
        if not ok:
            rep.violation(check, "arith:%s:%s" % (why, where), detail, replay={"kind": "units-program", "program": prog})
            return "violation"
        acc, acc_exp = got, exp
        if exp["k"] not in ("uv", "ua"):
            break
    return "ok"


def gen_programs(rep, seed, want, nsys, depth_cfg, timeout):
    sc = UO.scales(rep)
    rng = random.Random(seed)
    systems = all_systems(sc)
    progs = []
    rounds = max(1, want // 1500)
    for rd in range(rounds):
        chosen = [("µm", "s", "molecule")] + [rng.choice(systems) for _ in range(nsys - 1)]
        rng.shuffle(chosen)
        p = os.path.join(util.subdir("eval"), "sys_%d_%d.json" % (os.getpid(), rd))
        with open(p, "w") as f:
            json.dump([list(s) for s in chosen], f, ensure_ascii=False)
        lines, st = tlc.stream("MC_Units", depth_cfg, want // rounds, env={"SYS_FILE": p}, seed=seed * 100 + rd, timeout=timeout)
        if st["error"]:
            if "Refinement" in " ".join(st["other_tail"]):
                rep.violation("model", "model:units:Refinement", {"tlc": st["other_tail"]})
            else:
                raise MachineryError("TLC generator failed: %s\n%s" % (st["error"], "\n".join(st["other_tail"])))
        for l in lines:
            progs.append(json.loads(tlc.unquote_tla_json(l)))
    return progs


def run(tier, selftest=False, only=None):
    rep = Report(PROP, tier)
    rep.rule = ("model: every single operation (12 binary operators on either side, 3 unary) over generated operands "
                "(UnitValue, UnitArray of length 2/3, plain number; matching / mismatching dimension; matching / mismatching "
                "length) in 3 unit systems x 10 dimension vectors is checked by TLC for refinement: the concrete dispatch rules "
                "of units.py give exactly the SI arithmetic result, and refuse exactly what is dimensionally meaningless; "
                "implementation: programs of up to 3 operations generated by TLC (-simulate) with unit systems drawn from all "
                "1100, replayed on UnitValue / UnitArray with value (rtol 1e-12), unit system, dimension, boolean or exception "
                "compared after every step; distinct = distinct programs; non-trivial = at least one operand in a different "
                "unit system or an expected refusal")
    rep.assumptions = [
        "operands are generated so that every sum stays a monomial (operand values are small rationals in the accumulator's "
        "units, expressed exactly in their own system) and away from binary64 discontinuities: no cancellation below 1/8 of the "
        "operands, modulo quotients at distance >= 1/4 from integers, compared values differ by a factor >= 1.5 unless they are "
        "the same literal in the same system",
        "== / != with a UnitArray operand are outside the generated domain (UnitArray defines no comparisons)",
        "numpy scalars as left operands are not generated (plain numbers = int, float)",
    ]
    seed = util.seed()
    sysfile = os.path.join(util.subdir("eval"), "sys_mc.json")
    with open(sysfile, "w") as f:
        json.dump([["µm", "s", "molecule"], ["m", "min", "mol"], ["km", "h", "µmol"]], f, ensure_ascii=False)
    r = tlc.run("MC_Units", cfg="Gen_Units1", env={"SYS_FILE": sysfile}, timeout=1800, heap="8g")
    rep.add_tlc("MC_Units (all single operations: refinement checked, every one emitted for replay)", r)
    if not r.ok:
        if r.violated:
            rep.violation("model", "model:units:" + r.violated, {"tlc": r.tail(60)})
        else:
            raise MachineryError("TLC failed: %s\n%s" % (r.error, r.tail(20)))
    want, tmo = (6000, 25) if tier == "quick" else (120000, 60)
    singles = [json.loads(tlc.unquote_tla_json(l)) for l in r.out.splitlines() if l.startswith('<<"PROGRAM"')]
    if r.ok and len(singles) < 50000:
        raise MachineryError("exhaustive single-operation run emitted only %d programs" % len(singles))
    rep.extra["single_operation_programs"] = len(singles)
    rep.exhaustive = True
    progs = singles + gen_programs(rep, seed, want, 4, "Gen_Units", tmo)
    stats = {"ok": 0, "violation": 0, "skipped": 0}
    for p in progs:
        nontriv = any(st["res"]["k"] == "err" or (st["x"].get("sys") and st["x"]["sys"] != p["init"]["sys"]) for st in p["steps"])
        rep.case(p, nontrivial=nontriv)
        with rep.guard("program", p):
            stats[replay_program(rep, p, "program")] += 1
    rep.traces = len(progs)
    rep.extra["program_outcomes"] = stats
    rep.extra["steps"] = sum(len(p["steps"]) for p in progs)
    for p in progs[:3]:
        rep.sample(p)
    if len(progs) < 500:
        raise MachineryError("generator produced only %d programs" % len(progs))
    if selftest:
        probe = Report("C05-selftest", "quick")
        import copy
        n = 0
        for p in progs:
            if p["steps"][0]["res"]["k"] == "uv" and n < 5:
                q = copy.deepcopy(p)
                q["steps"] = q["steps"][:1]
                q["steps"][0]["res"]["v"]["num"] = q["steps"][0]["res"]["v"]["num"] * 3 + 1
                replay_program(probe, q, "selftest")
                n += 1
        rep.selftest("expected value perturbed", len(probe.violations) == n and n > 0, "n=%d" % n)
    return rep.finish()


def replay(rp):
    rep = Report(PROP, "quick")
    prog = (rp.get("replay") or {}).get("program")
    if not prog:
        return 2
    rep.case(prog)
    replay_program(rep, prog, "replay")
    rep.traces = 1
    return rep.finish()
