"""C12 - Dictionary, JSON and file round-trips preserve the model."""
import itertools
import json
import os
import random
import shutil
from fractions import Fraction as Fr

import numpy as np

from .. import serial
from .. import units_oracle as UO
from ..vlib import build, tlc, util
from ..vlib.report import MachineryError, Report

util.ensure_repo_importable()
import strengths  # noqa: E402
from strengths import (RDScript, UnitsSystem, load_rdnetwork, load_rdscript, load_rdspace, load_rdsystem, load_rdtrajectory,
                       rdnetwork_from_dict, rdnetwork_to_dict, rdscript_from_dict, rdscript_to_dict, rdspace_from_dict, rdspace_to_dict,
                       rdsystem_from_dict, rdsystem_to_dict, save_rdnetwork, save_rdspace, save_rdsystem, save_rdtrajectory, simulate_script)  # noqa: E402

PROP = "C12"


def tlc_trees(rep, tier):
    if tier == "thorough":
        r0 = tlc.run("MC_Serialize", timeout=3000, heap="8g")
        rep.add_tlc("MC_Serialize (all 5^8 declaration trees)", r0)
        if not r0.ok:
            if r0.violated:
                rep.violation("model", "model:serialize:" + r0.violated, {"tlc": r0.tail(30)})
            else:
                raise MachineryError("TLC failed: %s\n%s" % (r0.error, r0.tail(20)))
    r = tlc.run("MC_Serialize", cfg="Gen_Serialize", timeout=3000, heap="8g")
    rep.add_tlc("MC_Serialize (4^8 declaration trees, emitted)", r)
    if not r.ok:
        if r.violated:
            rep.violation("model", "model:serialize:" + r.violated, {"tlc": r.tail(30)})
        else:
            raise MachineryError("TLC failed: %s\n%s" % (r.error, r.tail(20)))
    trees = [json.loads(tlc.unquote_tla_json(l)) for l in r.out.splitlines() if l.startswith('<<"PROGRAM"')]
    keys = [json.loads(tlc.unquote_tla_json(l, prefix='<<"KEYS", "')) for l in r.out.splitlines() if l.startswith('<<"KEYS"')]
    if r.ok and (len(trees) < 60000 or not keys):
        raise MachineryError("generator emitted %d trees, %d key tables" % (len(trees), len(keys)))
    return trees, (keys[0] if keys else {})


def jnorm(d):
    return json.loads(json.dumps(d, default=lambda o: o.tolist() if hasattr(o, "tolist") else list(o)))


def check_system_roundtrip(rep, system, tag, tmp):
    p0 = serial.phys_system(system)
    try:
        d1 = rdsystem_to_dict(system)
    except Exception as e:  # noqa
        rep.violation("roundtrip", "serial:system-to_dict-exception:" + type(e).__name__, dict(tag, exc=repr(e)[:200]))
        return
    for via in ("dict", "json", "file"):
        try:
            if via == "dict":
                s2 = rdsystem_from_dict(d1)
            elif via == "json":
                s2 = rdsystem_from_dict(json.loads(json.dumps(jnorm(d1))))
            else:
                path = os.path.join(tmp, "rt_system.json")
                save_rdsystem(system, path)
                s2 = load_rdsystem(path)
        except Exception as e:  # noqa
            rep.violation("roundtrip", "serial:system-%s-exception:%s" % (via, type(e).__name__), dict(tag, exc=repr(e)[:200]))
            return
        df = serial.diff(p0, serial.phys_system(s2))
        if df:
            rep.violation("roundtrip", "serial:system-%s-roundtrip" % via, dict(tag, difference=df))
            return
        if via == "dict":
            d2 = rdsystem_to_dict(s2)
            if jnorm(d1) != jnorm(d2):
                rep.violation("roundtrip", "serial:system-to_dict-not-stable", dict(tag, difference=serial.diff(jnorm(d1), jnorm(d2))))
                return
            us = lambda o: (o.units_system["space"], o.units_system["time"], o.units_system["quantity"])
            same_units = (us(system) == us(s2) and us(system.network) == us(s2.network) and us(system.space) == us(s2.space)
                          and all(us(a) == us(b) for a, b in zip(system.network.species, s2.network.species))
                          and all(us(a) == us(b) for a, b in zip(system.network.reactions, s2.network.reactions)))
            if not same_units:
                rep.violation("roundtrip", "serial:unit-systems-not-preserved", tag)
                return
    # parts
    for name, obj, to_d, from_d, save, load, phys in (
            ("network", system.network, rdnetwork_to_dict, rdnetwork_from_dict, save_rdnetwork, load_rdnetwork, serial.phys_network),
            ("space", system.space, rdspace_to_dict, rdspace_from_dict, save_rdspace, load_rdspace, serial.phys_space)):
        try:
            o2 = from_d(json.loads(json.dumps(jnorm(to_d(obj)))))
            path = os.path.join(tmp, "rt_%s.json" % name)
            save(obj, path)
            o3 = load(path)
        except Exception as e:  # noqa
            rep.violation("roundtrip", "serial:%s-roundtrip-exception:%s" % (name, type(e).__name__), dict(tag, exc=repr(e)[:200]))
            continue
        for o in (o2, o3):
            df = serial.diff(phys(obj), phys(o))
            if df:
                rep.violation("roundtrip", "serial:%s-roundtrip" % name, dict(tag, difference=df))
                break


def script_checks(rep, rng, desc, trees, tmp, n):
    from ..rd_model import Fr as _Fr  # noqa
    lib = build.load("plain")
    for k in range(n):
        m = serial.random_phys_model(rng, max_cells=3)
        if k < 12:          # the first cases also go through trajectory files: grids, half of them reflecting with >= 2 cells (coarse-grainable)
            m = serial.random_phys_model(rng, max_cells=4, graph=False)
            if k % 2 == 0:
                while m.ncells() < 2:
                    m = serial.random_phys_model(rng, max_cells=4, graph=False)
                m.space["bc"] = (False, False, False)
        t = rng.choice(trees)
        times = {"dt": Fr(1, 64), "ts": [Fr(0), Fr(1, 16), Fr(1, 4)], "interval": Fr(1, 8),
                 # boundary values that are valid but "falsy" (0) or at the end of the documented range must survive like any other
                 "seed": rng.choice([0, 0, 1, 2 ** 31, 2 ** 32 - 1]) if rng.random() < 0.4 else rng.randint(0, 99999),
                 "policy": rng.choice(["on_t_sample", "on_interval", "on_iteration", "no_sampling"])}
        r = rng.random()
        if r < 0.4:
            times["tmax"] = Fr(3, 16)
        elif r < 0.5:
            times["tmax"] = Fr(0)
        d = desc.script(m, t["decl"], t["eff"], times)
        tag = {"decl": t["decl"], "script": d}
        rep.case(["script", json.dumps(d, sort_keys=True, default=str)])
        try:
            sc = rdscript_from_dict(d)
        except Exception as e:  # noqa
            rep.violation("script", "serial:script-from_dict-exception:" + type(e).__name__, dict(tag, exc=repr(e)[:200]))
            continue
        exp = {"system": serial.phys_of_model(m), "t_sample": [float(x) for x in times["ts"]], "time_step": float(times["dt"]),
               "t_max": float(times.get("tmax", times["ts"][-1])), "sampling_policy": times["policy"],
               "sampling_interval": float(times["interval"]), "rng_seed": times["seed"], "init_state_processing": "auto"}
        df = serial.diff(exp, serial.phys_script(sc))
        if df:
            rep.violation("script", "serial:script-meaning", dict(tag, difference=df))
            continue
        # a script with non-default processing mode and a drawn seed survives the round trip
        sc.init_state_processing = rng.choice(["none", "Poisson", "redist"])
        p0 = serial.phys_script(sc)
        try:
            d1 = rdscript_to_dict(sc)
            sc2 = rdscript_from_dict(json.loads(json.dumps(jnorm(d1))))
        except Exception as e:  # noqa
            rep.violation("script", "serial:script-roundtrip-exception:" + type(e).__name__, dict(tag, exc=repr(e)[:200]))
            continue
        df = serial.diff(p0, serial.phys_script(sc2))
        if df:
            rep.violation("script", "serial:script-roundtrip:" + df.split(":")[0].strip("/"), dict(tag, difference=df))
        # save / load
        path = os.path.join(tmp, "script_%d.json" % k)
        try:
            strengths.save_rdscript(sc, path)
            sc3 = load_rdscript(path)
            df = serial.diff(p0, serial.phys_script(sc3))
            if df:
                rep.violation("script", "serial:script-file-roundtrip:" + df.split(":")[0].strip("/"), dict(tag, difference=df))
        except Exception as e:  # noqa
            rep.violation("script", "serial:save_rdscript-exception:" + type(e).__name__, dict(tag, exc=repr(e)[:200]))
        # trajectory files, both data modes
        if k < max(12, n // 5) and m.space["type"] == "grid":
            try:
                sc.init_state_processing = "auto"
                outs = [simulate_script(sc, build.make_engine("euler", lib=lib))]
                if not any(m.space["bc"]) and m.ncells() > 1:
                    # a coarse-grained run: the trajectory's system (the grid) is not its script's system (the coarse graph)
                    cg = [0] * m.ncells() if len(set(m.space["cell_env"])) == 1 else list(range(m.ncells()))
                    outs.append(simulate_script(sc, build.make_engine("euler", lib=lib), cgmap=cg))
                for out, sep in [(o, s) for o in outs for s in (True, False)]:
                    pth = os.path.join(tmp, "traj_%d_%d" % (k, sep))
                    save_rdtrajectory(out, pth, separate_data=sep)
                    back = load_rdtrajectory(pth + ".json")
                    ok = (np.array_equal(back.data.convert(serial.US0).value, out.data.convert(serial.US0).value)
                          and np.array_equal(back.t.convert(serial.US0).value, out.t.convert(serial.US0).value)
                          and serial.diff(serial.phys_system(out.system), serial.phys_system(back.system)) is None
                          and serial.diff(serial.phys_script(out.script), serial.phys_script(back.script)) is None
                          and back.engine_option == out.engine_option
                          and (list(back.cgmap) if back.cgmap is not None else None) == (list(out.cgmap) if out.cgmap is not None else None)
                          and back.ncells() * back.nspecies() * back.nsamples() == len(back.data))
                    rep.extra["trajectory_roundtrips"] = rep.extra.get("trajectory_roundtrips", 0) + 1
                    if out.cgmap is not None:
                        rep.extra["coarse_grained_trajectory_roundtrips"] = rep.extra.get("coarse_grained_trajectory_roundtrips", 0) + 1
                    if not ok:
                        rep.violation("trajectory", "serial:trajectory-roundtrip" + (":coarse-grained" if out.cgmap is not None else ""),
                                      dict(tag, separate_data=sep))
            except Exception as e:  # noqa
                rep.violation("trajectory", "serial:trajectory-exception:" + type(e).__name__, dict(tag, exc=repr(e)[:200]))


def trajectory_name_checks(rep, tmp):
    """Several trajectories saved side by side, under names that share a stem or end in characters of the extension, with
    and without '.json': each reloads with its own data, and the external data file is <name>_data.npy as documented."""
    from strengths import RDNetwork, RDSystem, RDTrajectory, Species, UnitArray
    d = os.path.join(tmp, "names")
    os.makedirs(d, exist_ok=True)
    system = RDSystem(network=RDNetwork(species=[Species("A")], reactions=[]))
    names = ["result", "results", "run_n", "run_s", "run_", "jason", "a.b", "traj.json", "trajs.json", "x"]
    saved = {}
    for k, name in enumerate(names):
        tr = RDTrajectory(data=UnitArray(np.array([float(k), 10.0 + k, 20.0 + k]), "molecule"), t_sample=UnitArray(np.array([0.0, 1.0, 2.0]), "s"),
                          system=system)
        try:
            save_rdtrajectory(tr, os.path.join(d, name), separate_data=True)
        except Exception as e:  # noqa
            # these trajectories are built by hand, without a script (the constructor's default)
            rep.violation("trajectory", "serial:trajectory-without-script-cannot-be-saved", {"name": name, "exc": repr(e)[:200]})
            return
        saved[name] = tr
    for name, tr in saved.items():
        rep.case(["trajectory-name", name])
        base = name[:-5] if name.endswith(".json") else name
        path = os.path.join(d, base + ".json")
        try:
            back = load_rdtrajectory(path)
            ok = np.array_equal(back.data.convert("molecule").value, tr.data.value)
        except Exception as e:  # noqa
            rep.violation("trajectory", "serial:trajectory-name-exception", {"name": name, "exc": repr(e)[:200]})
            continue
        if back.script is not None:
            rep.violation("trajectory", "serial:trajectory-without-script-reloads-with-one", {"name": name})
        if not ok:
            rep.violation("trajectory", "serial:trajectory-reloads-with-another-file's-data", {"name": name, "got": [float(v) for v in back.data.value],
                                                                                                "saved": [float(v) for v in tr.data.value]})
        elif not os.path.exists(os.path.join(d, base + "_data.npy")):
            rep.violation("trajectory", "serial:trajectory-data-file-name", {"name": name, "files": sorted(os.listdir(d))[:30]})


def multifile_checks(rep, rng, desc, trees, tmp, n):
    """scripts split over files: relative paths resolve against the including file's directory, absolute ones as given"""
    for k in range(n):
        m = serial.random_phys_model(rng, max_cells=4, graph=False)
        m.state = [[rng.choice([0, 1, 2, 5]) for _ in range(m.ncells())] for _ in m.species]
        m.chem = [[int(rng.random() < 0.3) for _ in range(m.ncells())] for _ in m.species]
        t = rng.choice(trees)
        times = {"dt": Fr(1, 64), "ts": [Fr(0), Fr(1, 4)], "interval": Fr(1, 8)}
        d = desc.script(m, t["decl"], t["eff"], times)
        root = os.path.join(tmp, "mf_%d" % k)
        for sub in ("", "a", "a/b", "elsewhere"):
            os.makedirs(os.path.join(root, sub), exist_ok=True)
        sysd = d["system"] if "system" in d else d[[x for x in d if x in ("system",)][0]]
        netkey = [x for x in sysd if x in ("network", "rdnetwork")][0]
        spkey = [x for x in sysd if x in ("space", "rdspace")][0]
        layout = {}
        # network: relative to the system file, in a sub-directory
        with open(os.path.join(root, "a", "b", "net.json"), "w") as f:
            json.dump(sysd[netkey], f)
        sysd[netkey] = rng.choice(["b/net.json", os.path.join(root, "a", "b", "net.json")])
        layout["network"] = sysd[netkey]
        # space with cell_env in a text or npy file next to the space file
        sp = sysd[spkey]
        envkey = [x for x in sp if x in ("cell_env", "cell_environments", "cell environments", "environments", "env")][0]
        if rng.random() < 0.5:
            np.save(os.path.join(root, "elsewhere", "env.npy"), np.array(sp[envkey], dtype=int))
            sp[envkey] = "env.npy"
        else:
            with open(os.path.join(root, "elsewhere", "env.txt"), "w") as f:
                f.write(rng.choice([" ", ", ", "\n"]).join(str(v) for v in sp[envkey]))
            sp[envkey] = "env.txt"
        layout["cell_env"] = sp[envkey]
        with open(os.path.join(root, "elsewhere", "space.json"), "w") as f:
            json.dump(sp, f)
        sysd[spkey] = os.path.join(root, "elsewhere", "space.json") if rng.random() < 0.5 else "../elsewhere/space.json"
        layout["space"] = sysd[spkey]
        # state as .npy next to the system file, chemostats as text or npy
        if isinstance(sysd.get("state"), dict):
            np.save(os.path.join(root, "a", "state.npy"), np.array(sysd["state"]["value"], dtype=float))
            sysd["state"]["value"] = "state.npy"
        if "chemostats" in sysd:
            if rng.random() < 0.5:
                np.save(os.path.join(root, "a", "chem.npy"), np.array(sysd["chemostats"], dtype=int))
                sysd["chemostats"] = "chem.npy"
            else:
                with open(os.path.join(root, "a", "chem.txt"), "w") as f:
                    f.write(" ".join(str(v) for v in sysd["chemostats"]))
                sysd["chemostats"] = "chem.txt"
        with open(os.path.join(root, "a", "system.json"), "w") as f:
            json.dump(sysd, f)
        d["system"] = "a/system.json"
        with open(os.path.join(root, "script.json"), "w") as f:
            json.dump(d, f)
        tag = {"layout": layout, "decl": t["decl"]}
        rep.case(["multifile", k, layout])
        cwd = os.getcwd()
        try:
            os.chdir(tmp)          # the working directory must not matter
            sc = load_rdscript(os.path.join(root, "script.json"))
            df = serial.diff(serial.phys_of_model(m), serial.phys_system(sc.system))
            if df:
                rep.violation("multifile", "serial:multifile-meaning", dict(tag, difference=df))
            sy = load_rdsystem(os.path.join(root, "a", "system.json"))
        except Exception as e:  # noqa
            rep.violation("multifile", "serial:multifile-exception:" + type(e).__name__, dict(tag, exc=repr(e)[:300]))
        finally:
            os.chdir(cwd)


def default_checks(rep):
    """omitted keys take the documented defaults"""
    cases = [
        ("network-without-reactions", lambda: rdnetwork_from_dict({"species": [{"label": "A"}]}),
         lambda o: len(o.reactions) == 0 and list(o.environments) == [""]),
        ("species-defaults", lambda: rdnetwork_from_dict({"species": [{"label": "A"}], "reactions": []}),
         lambda o: o.species[0].D.value == 0 and o.species[0].density.value == 0 and o.species[0].chstt is False),
        ("reaction-defaults", lambda: rdnetwork_from_dict({"species": [{"label": "A"}], "reactions": [{"eq": "A -> "}]}),
         lambda o: o.reactions[0].kf.value == 0 and o.reactions[0].kr.value == 0 and o.reactions[0].label is None),
        ("grid-defaults", lambda: rdspace_from_dict({}),
         lambda o: (o.w, o.h, o.d) == (1, 1, 1) and o.cell_vol.convert("µm3").value == 1 and list(o.cell_env) == [0]
         and o.get_boundary_conditions() == {"x": "reflecting", "y": "reflecting", "z": "reflecting"}),
        ("node-edge-defaults", lambda: rdspace_from_dict({"type": "graph", "nodes": [{}, {}], "edges": [{"nodes": [0, 1]}]}),
         lambda o: o.nodes[0].volume.convert("µm3").value == 1 and o.nodes[0].environment == 0
         and o.edges[0].surface.convert("µm2").value == 1 and o.edges[0].distance.convert("µm").value == 1),
        ("units-system-partial", lambda: rdnetwork_from_dict({"species": [{"label": "A"}], "reactions": [], "units": {"space": "m"}}),
         lambda o: (o.units_system["space"], o.units_system["time"], o.units_system["quantity"]) == ("m", "s", "molecule")),
        ("system-without-space-inherits-units",
         lambda: rdsystem_from_dict({"network": {"species": [{"label": "A", "density": 1}], "reactions": []},
                                     "units": {"space": "m", "time": "s", "quantity": "mol"}}),
         lambda o: abs(o.state.convert("mol").value[0] - 1.0) < 1e-9 and o.space.size() == 1),
        ("system-with-empty-space-inherits-units",
         lambda: rdsystem_from_dict({"network": {"species": [{"label": "A", "density": 1}], "reactions": []}, "space": {},
                                     "units": {"space": "m", "time": "s", "quantity": "mol"}}),
         lambda o: abs(o.state.convert("mol").value[0] - 1.0) < 1e-9),
        ("script-defaults", lambda: rdscript_from_dict({"system": {"network": {"species": [{"label": "A"}], "reactions": []}}, "t_sample": [0, 2]}),
         lambda o: o.time_step.convert("s").value == 1e-3 and o.t_max.convert("s").value == 2 and o.sampling_policy == "on_t_sample"
         and o.sampling_interval.convert("s").value == 1 and o.init_state_processing == "auto"),
        ("script-init_state_processing-key",
         lambda: rdscript_from_dict({"system": {"network": {"species": [{"label": "A"}], "reactions": []}}, "t_sample": [0, 1],
                                     "init_state_processing": "Poisson"}),
         lambda o: o.init_state_processing == "Poisson"),
    ]
    for name, build_fn, ok in cases:
        rep.case(["default", name])
        try:
            o = build_fn()
            if not ok(o):
                rep.violation("defaults", "serial:default:" + name, {})
        except Exception as e:  # noqa
            rep.violation("defaults", "serial:default-exception:" + name, {"exc": repr(e)[:200]})


def _units_systems_of(o, seen=None):
    """every UnitsSystem object reachable from an object a reader returned"""
    seen = set() if seen is None else seen
    out = []
    if id(o) in seen or o is None:
        return out
    seen.add(id(o))
    us = getattr(o, "units_system", None)
    if isinstance(us, UnitsSystem):
        out.append(us)
    for name in ("network", "space", "system"):
        out += _units_systems_of(getattr(o, name, None), seen)
    for name in ("species", "reactions", "nodes", "edges"):
        for x in (getattr(o, name, None) or []):
            out += _units_systems_of(x, seen)
    return out


def reader_independence_checks(rep):
    """Reading a description gives an object of its own: editing it in place - here the components of every units system it
    holds - does not change what the same description reads as afterwards (omitted keys keep taking the documented defaults)."""
    net = {"species": [{"label": "A", "density": 2, "D": 1}], "reactions": [{"eq": "A -> ", "k+": 1}]}
    cases = [
        ("network", lambda: rdnetwork_from_dict(json.loads(json.dumps(net))), strengths.rdnetwork_to_dict),
        ("grid", lambda: rdspace_from_dict({"w": 2, "cell_vol": 2}), strengths.rdspace_to_dict),
        ("graph", lambda: rdspace_from_dict({"type": "graph", "nodes": [{"volume": 2}, {}], "edges": [{"nodes": [0, 1], "distance": 3}]}),
         strengths.rdspace_to_dict),
        ("system-grid", lambda: rdsystem_from_dict({"network": json.loads(json.dumps(net)), "space": {"w": 2, "cell_vol": 2}}),
         strengths.rdsystem_to_dict),
        ("system-graph", lambda: rdsystem_from_dict({"network": json.loads(json.dumps(net)),
                                                     "space": {"type": "graph", "nodes": [{"volume": 2}, {}], "edges": [{"nodes": [0, 1]}]}}),
         strengths.rdsystem_to_dict),
        ("system-without-space", lambda: rdsystem_from_dict({"network": json.loads(json.dumps(net))}), strengths.rdsystem_to_dict),
        ("script", lambda: rdscript_from_dict({"system": {"network": json.loads(json.dumps(net)), "space": {"type": "graph", "nodes": [{}], "edges": []}},
                                               "t_sample": [0, 2], "rng_seed": 5}), strengths.rdscript_to_dict),
    ]
    # a reader leaves the dictionary it is given as it found it: the same dictionary object reads the same a second time
    import copy as _copy
    net_d = json.loads(json.dumps(net))
    inputs = [
        ("network", net_d, rdnetwork_from_dict, strengths.rdnetwork_to_dict),
        ("grid", {"type": "grid", "w": 2, "cell_vol": 2, "units": {"space": "nm"}}, rdspace_from_dict, strengths.rdspace_to_dict),
        ("graph", {"type": "graph", "nodes": [{"volume": 2}, {}], "edges": [{"nodes": [0, 1], "distance": 3}], "units": {"space": "nm"}},
         rdspace_from_dict, strengths.rdspace_to_dict),
        ("system", {"network": _copy.deepcopy(net_d), "space": {"type": "graph", "nodes": [{"volume": 2}, {}], "edges": [{"nodes": [0, 1]}]},
                    "units": {"time": "ms"}}, rdsystem_from_dict, strengths.rdsystem_to_dict),
        ("script", {"system": {"network": _copy.deepcopy(net_d), "space": {"type": "graph", "nodes": [{}], "edges": []}}, "t_sample": [0, 2],
                    "rng_seed": 5, "units": {"time": "ms"}}, rdscript_from_dict, strengths.rdscript_to_dict),
    ]
    for name, d, reader, to_dict in inputs:
        rep.case(["reader-leaves-input", name])
        before = json.dumps(d, sort_keys=True)
        try:
            one = jnorm(to_dict(reader(d)))
            if json.dumps(d, sort_keys=True) != before:
                rep.violation("defaults", "serial:reader-modifies-the-dictionary-it-is-given:" + name,
                              {"given": json.loads(before), "afterwards": jnorm(d)})
                continue
            two = jnorm(to_dict(reader(d)))
            if one != two:
                rep.violation("defaults", "serial:same-dictionary-reads-differently-the-second-time:" + name, {"first": one, "second": two})
        except Exception as e:  # noqa
            rep.violation("defaults", "serial:reader-leaves-input-exception:" + name, {"exc": repr(e)[:200]})
    for name, read, to_dict in cases:
        rep.case(["reader-independence", name])
        try:
            first = read()
            before = jnorm(to_dict(first))
            edited = 0
            for us in _units_systems_of(first):
                us.space, us.time, us.quantity = "nm", "ms", "mol"
                edited += 1
            again = jnorm(to_dict(read()))
        except Exception as e:  # noqa
            rep.violation("defaults", "serial:reader-independence-exception:" + name, {"exc": repr(e)[:200]})
            continue
        if edited == 0:
            raise MachineryError("no units system found in what the %s reader returned" % name)
        if again != before:
            rep.violation("defaults", "serial:later-read-depends-on-edits-of-an-earlier-result:" + name,
                          {"first_read": before, "read_after_editing_the_first_result": again})


def constructor_independence_checks(rep):
    """An object built with a units-system object keeps its own: editing that object afterwards (the caller re-uses it for
    something else) changes nothing in what the object says; likewise through the units_system setter."""
    from strengths import (RDGraphSpace, RDGraphSpaceEdge, RDGraphSpaceNode, RDGridSpace, RDNetwork, RDSystem, Reaction, Species,
                           reaction_to_dict, species_to_dict)
    mk_us = lambda: UnitsSystem(space="nm", time="ms", quantity="mol")
    net = lambda us: RDNetwork(species=[Species("A", density=2, D=1)], reactions=[Reaction("A -> ", kf=3)], units_system=us)
    graph = lambda us: RDGraphSpace(nodes=[RDGraphSpaceNode(volume=2), RDGraphSpaceNode()], edges=[RDGraphSpaceEdge(0, 1, surface=3, distance=2)],
                                    units_system=us)
    graph_view = lambda o: rdspace_to_dict(o)
    cases = [
        ("species", lambda us: Species("A", density=2, D=1, units_system=us), species_to_dict),
        ("reaction", lambda us: Reaction("A + B -> C", kf=3, kr=1, units_system=us), reaction_to_dict),
        ("network", net, rdnetwork_to_dict),
        ("grid", lambda us: RDGridSpace(w=2, cell_vol=3, units_system=us), rdspace_to_dict),
        ("graph", graph, graph_view),
        ("graph-node", lambda us: RDGraphSpace(nodes=[RDGraphSpaceNode(volume=2, units_system=us)], edges=[]), graph_view),
        ("graph-edge", lambda us: RDGraphSpace(nodes=[RDGraphSpaceNode(), RDGraphSpaceNode()],
                                                edges=[RDGraphSpaceEdge(0, 1, surface=3, distance=2, units_system=us)]), graph_view),
        ("system", lambda us: RDSystem(network=net(UnitsSystem()), space=RDGridSpace(w=2), units_system=us), rdsystem_to_dict),
        ("script", lambda us: RDScript(system=RDSystem(network=net(UnitsSystem()), space=RDGridSpace(w=2)), t_sample=[0, 2], time_step=0.5,
                                       rng_seed=3, units_system=us), rdscript_to_dict),
    ]
    for name, build_fn, to_dict in cases:
        for route in ("constructor", "setter"):
            rep.case(["constructor-independence", name, route])
            try:
                us = mk_us()
                if route == "constructor":
                    o = build_fn(us)
                else:
                    o = build_fn(UnitsSystem())
                    holder = o
                    if name == "graph-node":
                        holder = o.nodes[0]
                    elif name == "graph-edge":
                        holder = o.edges[0]
                    holder.units_system = us
                before = jnorm(to_dict(o))
                us.space, us.time, us.quantity = "km", "h", "molecule"
                after = jnorm(to_dict(o))
            except Exception as e:  # noqa
                rep.violation("defaults", "serial:constructor-independence-exception:%s:%s" % (name, route), {"exc": repr(e)[:200]})
                continue
            if before != after:
                rep.violation("defaults", "serial:object-follows-a-units-system-held-by-the-caller:%s:%s" % (name, route),
                              {"before": before, "after_the_caller_edited_its_units_system": after})


def run(tier, selftest=False, only=None):
    rep = Report(PROP, tier)
    rep.rule = ("model: all units-declaration trees over the 8 nesting levels (recursive reader rule = nearest definite "
                "declaration), alias groups disjoint, key acceptability, path resolution (TLC); implementation: seeded random "
                "physical models rendered as dictionaries under TLC-emitted declaration trees with two random unit systems, "
                "random key aliases, bare numbers or explicit unit strings, per-environment dictionaries, grid and graph spaces "
                "(nodes and edges with their own units): the loaded object must have the model's physical content; then "
                "to_dict / from_dict / JSON / save+load round trips of networks, spaces, systems, scripts and trajectories, "
                "multi-file layouts with relative and absolute paths and .npy / text arrays, and documented defaults; "
                "distinct = distinct dictionaries")
    rep.assumptions = ["physical content compared in the default units with rtol 1e-9; per-environment values compared after the "
                       "'default' fallback, not as dictionaries"]
    seed = util.seed()
    rng = random.Random(seed * 37 + 12)
    trees, keys = tlc_trees(rep, tier)
    sc = UO.scales(rep)
    allsys = list(itertools.product(sc["space"], sc["time"], sc["quantity"]))
    tmp = util.subdir("c12_files")
    # a system loaded on its own has no enclosing script: only trees whose script level is the default apply
    sys_trees = [t for t in trees if t["decl"]["script"] in ("absent", "default")]
    n = 250 if tier == "quick" else 4000
    for k in range(n):
        systems = {"S1": rng.choice(allsys), "S2": rng.choice(allsys)}
        desc = serial.Describer(sc, systems, rng, explicit_p=0.25, aliases=keys, alias_p=0.5)
        m = serial.random_phys_model(rng, max_cells=4)
        t = rng.choice(sys_trees)
        d = desc.system(m, t["decl"], t["eff"], state_form=rng.choice(["dict", "array"]))
        tag = {"decl": t["decl"], "systems": systems, "dict": d}
        rep.case(["system", json.dumps(d, sort_keys=True, default=str)])
        try:
            system = rdsystem_from_dict(json.loads(json.dumps(d)))
        except Exception as e:  # noqa
            rep.violation("meaning", "serial:system-from_dict-exception:" + type(e).__name__, dict(tag, exc=repr(e)[:200]))
            continue
        df = serial.diff(serial.phys_of_model(m), serial.phys_system(system))
        if df:
            rep.violation("meaning", "serial:system-meaning:" + df.split(":")[0].split("/")[1], dict(tag, difference=df))
            continue
        check_system_roundtrip(rep, system, tag, tmp)
    systems = {"S1": rng.choice(allsys), "S2": rng.choice(allsys)}
    desc = serial.Describer(sc, systems, rng, explicit_p=0.25, aliases=keys, alias_p=0.5)
    script_checks(rep, rng, desc, trees, tmp, 60 if tier == "quick" else 800)
    desc2 = serial.Describer(sc, systems, rng, explicit_p=0.2, aliases=None)
    multifile_checks(rep, rng, desc2, trees, tmp, 40 if tier == "quick" else 500)
    default_checks(rep)
    with rep.guard("reader-independence", None):
        reader_independence_checks(rep)
    with rep.guard("constructor-independence", None):
        constructor_independence_checks(rep)
    with rep.guard("trajectory", None):
        trajectory_name_checks(rep, tmp)
    shutil.rmtree(tmp, ignore_errors=True)
    rep.traces = rep.evaluations
    rep.sample({"declaration_tree": trees[12345]})
    if selftest:
        m = serial.random_phys_model(random.Random(3), max_cells=2)
        a = serial.phys_of_model(m)
        b = json.loads(json.dumps(a))
        b["state"][0] = b["state"][0] * 1.001 + 1
        rep.selftest("comparator notices a changed amount", serial.diff(a, b) is not None)
    return rep.finish()


def replay(rp):
    return run("quick")
