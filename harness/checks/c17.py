"""C17 - Trajectory accessors all read the same array consistently."""
import itertools
import json
import random

import numpy as np

from ..vlib import tlc, util
from ..vlib.report import MachineryError, Report
from . import c13  # noqa: E402  (position_forms)

util.ensure_repo_importable()
from strengths import (RDGridSpace, RDGraphSpace, RDGraphSpaceNode, RDNetwork, RDScript, RDSystem, RDTrajectory, Species, UnitArray,
                       UnitValue)  # noqa: E402

PROP = "C17"
TIME = {"s": 1.0, "ms": 1e-3, "min": 60.0, "h": 3600.0, "µs": 1e-6}


class P:
    def __init__(self, x=0, y=0, z=0):
        self.x, self.y, self.z = x, y, z


def mk_system(S, N, kind, rng):
    labels = rng.choice([["A", "Bb", "C3", "D"], ["1", "0", "12", "3"], ["3", "2", "1", "0"], ["S", "SS", "S_", "_S"], ["µ", "Ca2", "x", "X"]])[:S]
    net = RDNetwork(species=[Species(l) for l in labels], reactions=[])
    if kind == "graph":
        space = RDGraphSpace(nodes=[RDGraphSpaceNode() for _ in range(N)], edges=[])
        dims = None
    else:
        shapes = [(w, h, d) for w in range(1, N + 1) for h in range(1, N + 1) for d in range(1, N + 1) if w * h * d == N]
        dims = rng.choice(shapes)
        space = RDGridSpace(w=dims[0], h=dims[1], d=dims[2])
    return RDSystem(network=net, space=space), labels, dims


def accessor_checks(rep, rng, shapes):
    for ns, S, N in shapes:
        for kind in ("grid", "graph"):
            try:
                _accessor_case(rep, rng, ns, S, N, kind)
            except Exception as e:  # noqa
                rep.violation("accessors", "traj:exception", {"nsamples": ns, "nspecies": S, "ncells": N, "space": kind, "exc": repr(e)[:200]})


def _accessor_case(rep, rng, ns, S, N, kind):
    if True:
        if True:
            system, labels, dims = mk_system(S, N, kind, rng)
            unit = rng.choice(["molecule", "mol", "µmol"])
            data = UnitArray(np.arange(ns * S * N, dtype=float), unit)
            # the trajectory may carry the script that produced it; that script's system need not be the trajectory's (a trajectory
            # spread back over the fine grid carries the coarse script): the accessors address the trajectory's own system
            kw = {}
            which = rng.randrange(3)
            if which == 1:
                kw["script"] = RDScript(system=system, t_sample=[0.0, 1.0])
            elif which == 2:
                other = RDSystem(network=RDNetwork(species=[Species("Q")], reactions=[]), space=RDGraphSpace(nodes=[RDGraphSpaceNode()], edges=[]))
                kw["script"] = RDScript(system=other, t_sample=[0.0, 1.0])
            tr = RDTrajectory(data=data, t_sample=UnitArray(np.arange(ns, dtype=float), "s"), system=system, **kw)
            rep.case(["shape", ns, S, N, kind, which])
            tag = {"nsamples": ns, "nspecies": S, "ncells": N, "space": kind, "grid": dims}
            if (tr.nsamples(), tr.nspecies(), tr.ncells()) != (ns, S, N):
                rep.violation("accessors", "traj:shape", tag)
                return
            bad = None
            for n in range(ns):
                whole = tr.get_state(None, n)
                if [float(v) for v in whole.value] != [float(n * S * N + k) for k in range(S * N)] or str(whole.units) != str(data.units):
                    bad = ("get_state(None)", n, None, None)
                    break
                for s in range(S):
                    forms = [s, labels[s], system.network.species[s]]
                    for sp in forms:
                        st = tr.get_state(sp, n)
                        if [float(v) for v in st.value] != [float(n * S * N + s * N + c) for c in range(N)] or str(st.units) != str(data.units):
                            bad = ("get_state", n, s, None)
                            break
                    if bad:
                        break
                    for c in range(N):
                        want = float(n * S * N + s * N + c)
                        pos = [c, np.int64(c)]
                        if dims:
                            w, h, d = dims
                            xyz = (c % w, (c % (w * h)) // w, c // (w * h))
                            pos = list(c13.position_forms(xyz[0], xyz[1], xyz[2], w, h).values())
                        for p in pos:
                            sp = forms[(c + n) % 3]
                            v = tr.get_trajectory_point(sp, n, p)
                            if v.value != want or str(v.units) != str(data.units) or float(data.value[int(want)]) != want:
                                bad = ("get_trajectory_point", n, s, c)
                                break
                        if bad:
                            break
                    if bad:
                        break
                if bad:
                    break
            if not bad:
                for s in range(S):
                    for c in range(N):
                        pos = {"index": c, "index-np.int64": np.int64(c)}
                        if dims:
                            w, h, d = dims
                            pos = c13.position_forms(c % w, (c % (w * h)) // w, c // (w * h), w, h)
                        for form, p in pos.items():
                            col = tr.get_trajectory([labels[s], s, system.network.species[s]][(c + len(form)) % 3], position=p)
                            if np.shape(col.value) != (ns,) or [float(v) for v in col.value] != [float(n * S * N + s * N + c) for n in range(ns)] \
                                    or str(col.units) != str(data.units):
                                bad = ("get_trajectory:position-as-" + form.split("-")[0], None, s, c)
                                break
                        if bad:
                            break
                    m = tr.get_trajectory(s, merge=True)
                    want = [float(sum(n * S * N + s * N + c for c in range(N))) for n in range(ns)]
                    if [float(v) for v in m.value] != want or str(m.units) != str(data.units):
                        bad = ("get_trajectory(merge)", None, s, None)
                    if bad:
                        break
            if bad:
                rep.violation("accessors", "traj:" + bad[0], dict(tag, sample=bad[1], species=bad[2], cell=bad[3]))


def lookup_checks(rep, rng, cases):
    net = RDNetwork(species=[Species("A")], reactions=[])
    system = RDSystem(network=net)
    for c in cases:
        ts, q = c["ts"], c["q"]
        # ticks of 2 = 1 s.  A query that hits a sample, or lies exactly between two samples, is decided by an exact
        # comparison: it is asked in the samples' own unit, and that unit keeps half-second ticks exact in binary64.
        dists = sorted({abs(t - q) for t in ts})
        tie = len(ts) > 0 and len({t for t in ts if abs(t - q) == dists[0]}) > 1
        sensitive = (q in ts) or tie
        if sensitive:
            tu = qu = rng.choice(["s", "ms", "µs"])
        else:
            tu, qu = rng.choice(list(TIME)), rng.choice(list(TIME))
        scale = {"s": 1.0, "ms": 1e3, "µs": 1e6}
        tvals = [(t / 2.0) * scale[tu] if tu in scale else (t / 2.0) / TIME[tu] for t in ts]
        qval = (q / 2.0) * scale[qu] if qu in scale else (q / 2.0) / TIME[qu]
        if not tie and rng.random() < 0.3:
            # any magnitude: sample times a fraction of a picosecond apart, kept in seconds (a tick is 5e-14 s); the order of
            # the times and of the query is what the lookup is about, not their size
            tu = qu = "s"
            tvals = [(t / 2.0) * 1e-13 for t in ts]
            qval = (q / 2.0) * 1e-13
        tr = RDTrajectory(data=UnitArray([0.0] * len(ts), "molecule"), t_sample=UnitArray(tvals, tu), system=system)
        qv = UnitValue(qval, qu)
        rep.case(["lookup", ts, q, tu, qu])
        try:
            got = {p: tr.get_sample_index(qv, p) for p in ("infeq", "supeq", "closest")}
            got_s = tr.get_sample_index(str(qv), "closest")
        except Exception as e:  # noqa  (an exception out of a lookup is an outcome, not a failure of the check)
            rep.violation("lookup", "traj:lookup:exception", {"times_ticks": ts, "query_ticks": q, "time_unit": tu, "query_unit": qu, "exc": repr(e)[:200]})
            continue
        want_inf = None if c["inf"] == 0 else c["inf"] - 1
        want_sup = None if c["sup"] == 0 else c["sup"] - 1
        tag = {"times_ticks": ts, "query_ticks": q, "time_unit": tu, "query_unit": qu, "got": got}
        if got["infeq"] != want_inf:
            rep.violation("lookup", "traj:lookup:infeq", dict(tag, spec=want_inf))
        if got["supeq"] != want_sup:
            rep.violation("lookup", "traj:lookup:supeq", dict(tag, spec=want_sup))
        cl = got["closest"]
        if len(ts) == 0:
            ok = cl is None
        else:
            ok = cl is not None and 0 <= cl < len(ts) and ts[cl] == c["closestTime"]
        if not ok or got_s != cl:
            rep.violation("lookup", "traj:lookup:closest", dict(tag, spec_time_ticks=c["closestTime"]))


def run(tier, selftest=False, only=None):
    rep = Report(PROP, tier)
    rep.rule = ("model: all trajectory shapes up to 3 x 3 x 4 (flat formula = reshape semantics, offsets distinct and in range) and "
                "all non-decreasing time lists of length <= 4 (thorough 5) over 5 (7) ticks x all queries incl. half ticks and "
                "outside the range (linear scans of the code = declarative lookup), checked by TLC; implementation: "
                "trajectories with data[k] = k for every shape on grid and graph systems, every (species, sample, cell) through "
                "all four accessors with every way of naming species and cells; every emitted lookup case in random time units; "
                "distinct = distinct shapes / lookup cases")
    rep.assumptions = ["closest: compared by the time of the returned sample (equal recorded times are indistinguishable)",
                       "queries that coincide with a sample are asked in the samples' own unit (a unit conversion could flip <=)"]
    seed = util.seed()
    rng = random.Random(seed * 5 + 17)
    cfg = "MC_Layout"
    if tier == "thorough":
        tlc.write_cfg("MC_Layout_big", open(tlc.workdir() + "/MC_Layout.cfg").read().replace("MaxLen = 4", "MaxLen = 5").replace("MaxT = 4", "MaxT = 6"))
        cfg = "MC_Layout_big"
    r = tlc.run("MC_Layout", cfg=cfg, timeout=3000, heap="8g")
    rep.add_tlc("MC_Layout", r)
    if not r.ok:
        if r.violated:
            rep.violation("model", "model:layout:" + r.violated, {"tlc": r.tail(30)})
        else:
            raise MachineryError("TLC failed: %s\n%s" % (r.error, r.tail(20)))
    rep.exhaustive = True
    cases = [json.loads(tlc.unquote_tla_json(l)) for l in r.out.splitlines() if l.startswith('<<"PROGRAM"')]
    if r.ok and len(cases) < 1000:
        raise MachineryError("only %d lookup cases emitted" % len(cases))
    shapes = list(itertools.product(range(1, 4), range(1, 4), range(1, 5)))
    accessor_checks(rep, rng, shapes)
    lookup_checks(rep, rng, cases)
    rep.traces = len(cases) + 2 * len(shapes)
    rep.sample(cases[len(cases) // 2])
    if selftest:
        probe = Report("C17-selftest", "quick")
        bad = dict([c for c in cases if len(c["ts"]) >= 2 and c["inf"] >= 1][5])
        bad["inf"] = bad["inf"] - 1 if bad["inf"] > 1 else 2
        lookup_checks(probe, random.Random(1), [bad] * 4)
        rep.selftest("wrong expected infeq index is noticed", len(probe.violations) > 0)
    return rep.finish()


def replay(rp):
    return run("quick")
