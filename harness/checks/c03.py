"""C03 - Chemostated entries never change; everything else ignores the flag."""
import json
import random
from fractions import Fraction as Fr

import numpy as np

from .. import rd_euler, rd_eval, rd_law, rd_model, rd_rec
from ..vlib import util
from ..vlib.report import Report
from . import c07

PROP = "C03"


def single_flag_models(rng, n):
    """Models whose chemostat map has exactly one flagged (species, cell) entry - every entry in turn -
    plus per-environment and global declarations."""
    out = []
    while len(out) < n:
        m = rd_model.random_model(rng, chem_p=0.0, max_species=3, max_cells=4)
        nS, nC = len(m.species), m.ncells()
        if nS * nC < 2:
            continue
        mode = len(out) % 4
        if mode == 3:
            # an explicit False next to a 'default' that says True (keys in either order): the environment's own entry wins
            if len(m.envs) < 2:
                continue
            m.chem = None
            items = [(rng.choice(m.envs), False), ("default", True)]
            rng.shuffle(items)
            m.species[rng.randrange(nS)]["chstt"] = dict(items)
        elif mode == 0:
            s, i = rng.randrange(nS), rng.randrange(nC)
            m.chem = [[int(ss == s and ii == i) for ii in range(nC)] for ss in range(nS)]
        elif mode == 1:
            m.chem = None
            m.species[rng.randrange(nS)]["chstt"] = {rng.choice(m.envs): True}
        else:
            m.chem = None
            m.species[rng.randrange(nS)]["chstt"] = True
        out.append(m)
    return out


def flag_position_models():
    """'every species index, not only the first': a held species declared before, between and after the free species that react
    in the same cell - on a grid and on a graph, with and without an exchange between the cells. Deterministic: these shapes
    do not depend on what the random generator happens to draw."""
    out = []
    spaces = [{"type": "grid", "w": 2, "h": 1, "d": 1, "bc": (False, False, False), "hh": 1, "cell_env": [0, 1]},
              {"type": "graph", "nodes": [{"hh": 1, "env": 0}, {"hh": 1, "env": 1}], "edges": [{"i": 1, "j": 0, "sfc": Fr(1), "dst": Fr(1)}]},
              {"type": "graph", "nodes": [{"hh": 1, "env": 0}, {"hh": 1, "env": 1}], "edges": []}]
    layouts = [(["H", "X", "Y"], {"X": 1}, {"Y": 1}),      # the held species first, the reaction among the later ones
               (["X", "H", "Y"], {"X": 1}, {"Y": 1}),      # ... in between
               (["X", "Y", "H"], {"X": 1}, {"Y": 1}),      # ... last
               (["H", "Y"], {"H": 1}, {"Y": 1}),           # the held species is the reactant: it feeds the free one
               (["Y", "H"], {"H": 1}, {"Y": 1}),
               (["H", "X", "Y"], {"H": 1, "X": 1}, {"Y": 2})]
    for space in spaces:
        for labels, sub, prod in layouts:
            for held_env in ("a", "default"):
                species = [{"label": l, "D": Fr(1, 2) if l != "H" else Fr(0)} for l in labels]
                for sp_ in species:
                    if sp_["label"] == "H":
                        sp_["chstt"] = {held_env: True} if held_env == "a" else True
                m = rd_model.Model(species, [{"sub": dict(sub), "prod": dict(prod), "kf": Fr(2)}], ["a", "b"], space, None)
                m.state = [[6, 4] if l != "Y" else [0, 1] for l in labels]
                out.append(m)
    return out


def reservoir_models():
    """A held entry that holds tens of molecules is a diffusion source (and sink) for the free entries next to it: one held
    species that diffuses, alone or declared after / before a free one, on a grid and on a graph."""
    out = []
    spaces = [{"type": "grid", "w": 2, "h": 1, "d": 1, "bc": (False, False, False), "hh": 1, "cell_env": [0, 1]},
              {"type": "grid", "w": 3, "h": 1, "d": 1, "bc": (True, False, False), "hh": 1, "cell_env": [1, 0, 1]},
              {"type": "graph", "nodes": [{"hh": 1, "env": 0}, {"hh": 1, "env": 1}], "edges": [{"i": 1, "j": 0, "sfc": Fr(1), "dst": Fr(1)}]}]
    for space in spaces:
        nc = space["w"] if space["type"] == "grid" else len(space["nodes"])
        env = space["cell_env"] if space["type"] == "grid" else [n["env"] for n in space["nodes"]]
        for labels in (["H"], ["X", "H"], ["H", "X"]):
            species = [{"label": l, "D": Fr(1, 2)} for l in labels]
            for sp_ in species:
                if sp_["label"] == "H":
                    sp_["chstt"] = {"a": True}
            m = rd_model.Model(species, [], ["a", "b"], space, None)
            m.state = [[60 if (l == "H" and env[c] == 0) else (5 if l == "X" else 0) for c in range(nc)] for l in labels]
            out.append(m)
    return out


def apply_reaction_cases(rep, rng, n):
    """RDSystem.apply_reaction against RDStep.FireRes (the specification's result is computed here by the
    same rule TLC checks in MC_RDStep: non-flagged entries of that cell += n * sto)."""
    from strengths import UnitArray
    for k in range(n):
        m = rd_model.random_model(rng, max_reactions=2)
        if not m.reactions:
            continue
        system = rd_rec.build_system(m)
        labels = [s["label"] for s in m.species]
        nC = m.ncells()
        cm = m.chem_map()
        ri = rng.randrange(len(m.reactions))
        cell = rng.randrange(nC)
        times = rng.choice([1, 2, -1, 3])
        r = m.reactions[ri]
        x0 = [[float(v) for v in row] for row in m.state]
        exp = [row[:] for row in x0]
        for s, l in enumerate(labels):
            if not cm[s][cell]:
                exp[s][cell] += times * (r["prod"].get(l, 0) - r["sub"].get(l, 0))
        rep.case(["apply", m.key(), ri, cell, times])
        try:
            # reactions are unlabeled in the generated models: address by index
            got = system.apply_reaction(ri, position=cell, n=times)
            flat = [float(v) for v in got.convert("molecule").value]
        except Exception as e:  # noqa
            rep.violation("apply_reaction", "apply_reaction:exception", {"exc": repr(e)[:300], "model": m.strengths_dict()})
            continue
        want = [v for row in exp for v in row]
        if flat != want:
            bad = [i for i, (a, b) in enumerate(zip(flat, want)) if a != b][0]
            s, i = divmod(bad, nC)
            rep.violation("apply_reaction", "apply_reaction:%s" % ("chemostated-entry" if cm[s][i] else "free-entry"),
                          {"species": s, "cell": i, "got": flat, "want": want, "reaction": ri, "at": cell, "n": times,
                           "model": m.strengths_dict()})


def own_flags_checks(rep):
    """'the flag consulted is that of that very species in that very cell' - of that very system: a map handed to two systems as one
    array, or taken from one system and given to another, is each system's own afterwards. Flagging an entry in one system leaves
    the other's entry free: its rate of change stays the one the law gives, and the array the caller handed over is not consulted
    once the system is built."""
    util.ensure_repo_importable()
    from strengths import RDGridSpace, RDNetwork, RDSystem, Reaction, Species, kinetics
    net = lambda: RDNetwork(species=[Species(label="A", density=20), Species(label="B", density=5)],
                            reactions=[Reaction("A -> B", kf=2.0)])
    mk = lambda **kw: RDSystem(network=net(), space=RDGridSpace(w=2), **kw)
    free = [float(v) for v in kinetics.compute_dstatedt(mk()).value]
    routes = {
        "one-array-for-two-systems": lambda m: (mk(chemostats=m), mk(chemostats=m)),
        "map-of-one-system-assigned-to-another": lambda m: (lambda a: (a, _assign(mk(), a.chemostats)))(mk(chemostats=m)),
    }
    for name, build in routes.items():
        for dtype in (int, np.int64, np.int32, bool, float):
            rep.case(["own-flags", name, str(dtype)])
            m = np.zeros(4, dtype=dtype)
            a, b = build(m)
            a.set_chemostat("B", 1, 1)
            got = [float(v) for v in kinetics.compute_dstatedt(b).value]
            if [int(v) for v in b.chemostats] != [0, 0, 0, 0] or got != free:
                rep.violation("own-flags", "chem:flag-of-another-system-consulted:" + name,
                              {"dtype": str(dtype), "flags_of_the_untouched_system": [int(v) for v in b.chemostats], "rate": got, "law": free})
                continue
            m[:] = 1                      # the caller re-uses its array afterwards
            got = [float(v) for v in kinetics.compute_dstatedt(b).value]
            if got != free:
                rep.violation("own-flags", "chem:callers-array-consulted-after-construction:" + name,
                              {"dtype": str(dtype), "rate": got, "law": free})


def _assign(system, flags):
    system.chemostats = flags
    return system


def run(tier, selftest=False, only=None):
    rep = Report(PROP, tier)
    rep.rule = ("model: ChemostatsHeld on every Gillespie / tau-leap step (MC_RDStep) and on the exact Euler step, and the "
                "rate law is zero exactly on flagged entries and unchanged elsewhere (Eval_RD); implementation: stochastic "
                "traces with the clause evaluated by TLC in every state, Euler trajectories (flagged entries bit-identical "
                "to sample 0), compute_dstatedt / make_dxdtf / one Euler step against the exact law on models with exactly "
                "one flagged (species, cell) entry (every entry in turn), per-environment and global flags, and "
                "apply_reaction; distinct = distinct (model, state) cases and recorded traces")
    rep.assumptions = ["same exactness conventions as C01 / C07"]
    seed = util.seed()
    sel = lambda n: only is None or n in only
    if sel("model"):
        c07.model_check(rep, tier, seed + 2, label="C03")
    if sel("law"):
        rng = random.Random(seed * 557 + 3)
        n = 300 if tier == "quick" else 4000
        ms = single_flag_models(rng, n)
        cs = [(m, [[rng.choice([Fr(1), Fr(2), Fr(3), Fr(1, 2), Fr(3, 2)]) for _ in range(m.ncells())] for _ in m.species]) for m in ms]
        rd_law.model_check(rep, cs, "C03")
        spec = rd_eval.evaluate("flaw", rd_law.spec_items(cs), rep)
        impl = rd_law.impl_values(cs)
        rd_law.compare(rep, cs, spec, impl, "single-flag-law")
        rep.traces += len(cs)
        apply_reaction_cases(rep, rng, 200 if tier == "quick" else 3000)
    if sel("traces"):
        rng = random.Random(seed * 2713 + 33)
        n, it = (160, 150) if tier == "quick" else (2400, 400)
        jobs, models = c07.jobs_for(rng, n, ["gillespie", "gillespie", "tauleap"], it, chem_p=0.6)
        c07.trace_check(rep, jobs, models, "chemostat-heavy")
    if sel("stats"):
        # held entries are sources, sinks and reactants like any other, and jumps between two held entries are events that
        # take their time: event frequencies and waiting times of the exact engine against the generator TLC computes
        c07.gillespie_stats(rep, tier, seed, names={"chemostat-reservoir", "zero-order-chemostat"})
    if sel("leap"):
        rng = random.Random(seed * 977 + 35)
        n, sd, st = (40, 16, 30) if tier == "quick" else (300, 40, 40)
        c07.leap_drift_check(rep, rng, n, sd, st, "chemostat-heavy", chem_p=0.6)
        c07.leap_drift_check(rep, rng, 0, sd, st, "held-species-at-every-position", models=flag_position_models())
        c07.leap_drift_check(rep, rng, 0, sd, st, "held-reservoir-feeds-its-neighbours", models=reservoir_models(), cap=2000, dt=0.01)
        # large amounts: a flagged entry that holds tens of molecules is a strong source / reactant for its neighbours
        c07.leap_drift_check(rep, rng, (n * 3) // 5, sd, st, "chemostat-heavy-large-amounts", chem_p=0.6, max_mol=60, cap=2000, dt=0.01)
    if sel("euler"):
        rng = random.Random(seed * 4409 + 34)
        n, steps = (100, 3000) if tier == "quick" else (1000, 30000)
        ms = single_flag_models(rng, n)
        trs = rd_euler.trajectories(ms, steps)
        for m, tr in zip(ms, trs):
            rep.case(["euler-chem", m.key()])
            if tr[0] != "ok":
                rep.violation("euler", "euler:run-" + tr[0], {"model": m.strengths_dict()})
                continue
            rd_euler.check_chem(rep, m, tr[1], "euler")
        # a step far beyond the stability limit: the free entries blow up (inf / nan within a few hundred steps);
        # a flagged entry is never written, so it keeps its value exactly whatever happens around it
        import numpy as np
        tru = rd_euler.trajectories(ms, 800, dt=16.0, every=100)
        blown = 0
        for m, tr in zip(ms, tru):
            rep.case(["euler-chem-unstable", m.key()])
            if tr[0] != "ok":
                rep.violation("euler", "euler:unstable-step-run-" + tr[0], {"model": m.strengths_dict()})
                continue
            if not np.all(np.isfinite(tr[1])):
                blown += 1
            rd_euler.check_chem(rep, m, tr[1], "euler-unstable-step")
        rep.extra["euler_unstable_runs_that_blew_up"] = blown
        if blown == 0:
            from ..vlib.report import MachineryError
            raise MachineryError("no unstable-step Euler run blew up: the regime was not exercised")
        rep.traces += 2 * len(ms)
    with rep.guard("own-flags", None):
        own_flags_checks(rep)
    if selftest:
        c07.self_test(rep)
    return rep.finish()


def replay(rp):
    print("replay: re-running the quick check (cases are regenerated from the seed)")
    return run("quick")
