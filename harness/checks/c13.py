"""C13 - Default state and chemostat map: density x volume, species-major layout."""
import itertools
import json
import os
import random
from fractions import Fraction as Fr

import numpy as np

from .. import units_oracle as UO
from ..vlib import tlc, util
from ..vlib.report import MachineryError, Report

util.ensure_repo_importable()
from strengths import (RDGridSpace, RDGraphSpace, RDGraphSpaceEdge, RDGraphSpaceNode, RDNetwork, RDSystem, Species, UnitValue,
                       UnitArray, UnitsSystem)  # noqa: E402

PROP = "C13"


class P:
    def __init__(self, x=0, y=0, z=0):
        self.x, self.y, self.z = x, y, z


def mono_of(fr_value, scale):
    """value (Fraction) x scale (Fraction that is a pure 10^a 6^b NA^c product) as the spec's monomial record"""
    # scale is given as exponents triple already
    n, d = Fr(fr_value).numerator, Fr(fr_value).denominator
    return {"num": n, "den": d, "p10": scale[0], "p6": scale[1], "pNA": scale[2]}


SP_EXP = {"km": 3, "m": 0, "dm": -1, "cm": -2, "mm": -3, "dmm": -4, "cmm": -5, "µm": -6, "nm": -9, "pm": -12, "fm": -15}
QT_EXP = {"kmol": (3, 1), "mol": (0, 1), "dmol": (-1, 1), "cmol": (-2, 1), "mmol": (-3, 1), "µmol": (-6, 1), "nmol": (-9, 1),
          "pmol": (-12, 1), "fmol": (-15, 1), "molecule": (0, 0)}


def dens_scale(sys_):     # molecules per m^3 of one [quantity/space^3] of the system
    q = QT_EXP[sys_[2]]
    return (q[0] - 3 * SP_EXP[sys_[0]], 0, q[1])


def vol_scale(sys_):
    return (3 * SP_EXP[sys_[0]], 0, 0)


def qty_scale(sys_):
    q = QT_EXP[sys_[2]]
    return (q[0], 0, q[1])


def gen_case(rng, systems):
    """A random system description + an edit sequence, and its rendering for the specification."""
    nS = rng.randint(1, 3)
    envs = ["a", "b", "c"][:rng.randint(1, 3)]
    graph = rng.random() < 0.4
    net_sys = rng.choice(systems)
    sys_sys = rng.choice(systems)
    space_sys = rng.choice(systems)
    if graph:
        N = rng.randint(1, 4)
        dims = None
    else:
        dims = rng.choice([(1, 1, 1), (2, 1, 1), (3, 2, 1), (2, 2, 2), (1, 3, 1), (2, 1, 2), (3, 2, 2)])
        N = dims[0] * dims[1] * dims[2]
    cell_env = [rng.randrange(len(envs)) for _ in range(N)]
    species, dens_tab, chs_tab = [], [], []
    own_sys, node_sys = [], []
    # labels are arbitrary texts without blanks: digits only (not to be taken for an index), one a prefix of another,
    # non-ASCII letters, long ones
    labelset = rng.choice([["A", "B", "C"], ["1", "0", "12"], ["2", "1", "0"], ["S", "SS", "S_"], ["µ", "Ca2", "a-very-long-label_42"], ["x", "X", "x1"]])
    for s in range(nS):
        ssys = rng.choice(systems) if rng.random() < 0.5 else None          # None = given the network's system explicitly
        eff = ssys or net_sys
        kw = {"label": labelset[s], "units_system": UnitsSystem(*eff)}
        own_sys.append(ssys)
        tab = ["none"] * (len(envs) + 1)
        mode = rng.choice(["scalar", "dict", "dict-default", "absent", "explicit-unit"])
        if mode == "scalar":
            v = rng.choice([Fr(3), Fr(1, 2), Fr(7), Fr(5, 4)])
            kw["density"] = float(v)
            tab = [mono_of(v, dens_scale(eff))] * (len(envs) + 1)
        elif mode in ("dict", "dict-default"):
            d = {}
            for ei, e in enumerate(envs):
                if rng.random() < 0.6:
                    v = rng.choice([Fr(2), Fr(9), Fr(1, 4)])
                    d[e] = float(v)
                    tab[ei + 1] = mono_of(v, dens_scale(eff))
            if mode == "dict-default":
                v = rng.choice([Fr(1), Fr(6)])
                d["default"] = float(v)
                tab[0] = mono_of(v, dens_scale(eff))
            items = list(d.items())          # the order of the keys carries no meaning
            rng.shuffle(items)
            kw["density"] = dict(items)
        elif mode == "explicit-unit":
            other = rng.choice(systems)
            v = rng.choice([Fr(2), Fr(3, 2)])
            kw["density"] = UnitValue(float(v), "%s.%s-3" % (other[2], other[0]))
            tab = [mono_of(v, dens_scale(other))] * (len(envs) + 1)
        ctab = [False] * (len(envs) + 1)
        cm = rng.choice(["none", "true", "dict"])
        if cm == "true":
            kw["chstt"] = True
            ctab = [True] * (len(envs) + 1)
        elif cm == "dict":
            cd = {}
            ctab = ["none"] * (len(envs) + 1)
            for ei, e in enumerate(envs):
                if rng.random() < 0.5:
                    cd[e] = rng.random() < 0.6
                    ctab[ei + 1] = cd[e]
            if rng.random() < 0.4:
                cd["default"] = True
                ctab[0] = True
            items = list(cd.items())
            rng.shuffle(items)
            kw["chstt"] = dict(items)
        species.append(kw)
        dens_tab.append(tab)
        chs_tab.append(ctab)
    vols = []
    if graph:
        nodes = []
        for c in range(N):
            nsys = rng.choice(systems) if rng.random() < 0.4 else space_sys
            v = rng.choice([Fr(1), Fr(8), Fr(1, 2)])
            nodes.append({"volume": float(v), "environment": cell_env[c], "units_system": UnitsSystem(*nsys)})
            node_sys.append(nsys if nsys is not space_sys else None)
            vols.append(mono_of(v, vol_scale(nsys)))
        space = ("graph", nodes)
    else:
        v = rng.choice([Fr(1), Fr(8), Fr(27), Fr(1, 8)])
        space = ("grid", dims, float(v), cell_env)
        vols = [mono_of(v, vol_scale(space_sys))] * N
    edits = []
    for _ in range(rng.randint(1, 4)):
        s, c = rng.randrange(nS), rng.randrange(N)
        if rng.random() < 0.6:
            v = rng.choice([Fr(5), Fr(1, 2), Fr(11), Fr(0)])
            form = rng.choice(["bare", "unitvalue"])
            usys = sys_sys if form == "bare" else rng.choice(systems)
            edits.append({"op": "set_state", "s": s, "c": c, "v": mono_of(v, qty_scale(usys)), "_v": float(v), "_form": form, "_sys": usys,
                          "_sp": rng.randrange(3), "_pos": rng.randrange(3)})
        else:
            edits.append({"op": "set_chem", "s": s, "c": c, "b": rng.random() < 0.5, "_sp": rng.randrange(3), "_pos": rng.randrange(3)})
    enc = lambda t: [({"absent": True} if x == "none" else {"v": x}) for x in t]
    spec = {"nS": nS, "cellEnv": cell_env, "vol": vols, "dens": [enc(t) for t in dens_tab], "chs": [enc(t) for t in chs_tab],
            "edits": [{k: v for k, v in e.items() if not k.startswith("_")} for e in edits]}
    impl = {"species": species, "envs": envs, "space": space, "net_sys": net_sys, "sys_sys": sys_sys, "space_sys": space_sys,
            "edits": edits, "dims": dims, "N": N, "species_own_sys": own_sys, "node_own_sys": node_sys}
    return spec, impl


def build(impl):
    made = [Species(**kw) for kw in impl["species"]]
    net = RDNetwork(species=made, reactions=[], environments=impl["envs"],
                    units_system=UnitsSystem(*impl["net_sys"]))
    build.last_species = made        # the objects the caller created (the network was built from them)
    sp = impl["space"]
    if sp[0] == "grid":
        space = RDGridSpace(w=sp[1][0], h=sp[1][1], d=sp[1][2], cell_vol=sp[2], cell_env=sp[3], units_system=UnitsSystem(*impl["space_sys"]))
    else:
        space = RDGraphSpace(nodes=[RDGraphSpaceNode(**n) for n in sp[1]], edges=[], units_system=UnitsSystem(*impl["space_sys"]))
    return RDSystem(network=net, space=space, units_system=UnitsSystem(*impl["sys_sys"]))


def build_from_dict(impl):
    """The same system through the dictionary readers: a level that has no system of its own omits its 'units' key and
    inherits (species from the network, nodes from the graph), exactly as the constructors were told explicitly."""
    ud = lambda s: {"space": s[0], "time": s[1], "quantity": s[2]}
    sps = []
    for kw, own in zip(impl["species"], impl["species_own_sys"]):
        d = {"label": kw["label"]}
        if "density" in kw:
            d["density"] = str(kw["density"]) if isinstance(kw["density"], UnitValue) else kw["density"]
        if "chstt" in kw:
            d["chstt"] = kw["chstt"]
        if own is not None:
            d["units"] = ud(own)
        sps.append(d)
    net = {"species": sps, "reactions": [], "environments": list(impl["envs"]), "units": ud(impl["net_sys"])}
    sp = impl["space"]
    if sp[0] == "grid":
        space = {"type": "grid", "w": sp[1][0], "h": sp[1][1], "d": sp[1][2], "cell_vol": sp[2], "cell_env": list(sp[3]), "units": ud(impl["space_sys"])}
    else:
        nodes = []
        for n, own in zip(sp[1], impl["node_own_sys"]):
            nd = {"volume": n["volume"], "environment": n["environment"]}
            if own is not None:
                nd["units"] = ud(own)
            nodes.append(nd)
        space = {"type": "graph", "nodes": nodes, "edges": [], "units": ud(impl["space_sys"])}
    from strengths import rdsystem_from_dict
    return rdsystem_from_dict(json.loads(json.dumps({"network": net, "space": space, "units": ud(impl["sys_sys"])})))


def si_state(system):
    return [float(v) for v in system.state.convert(UnitsSystem(quantity="molecule")).value]


def close(a, b):
    return a == b or abs(a - b) <= 1e-12 * max(abs(a), abs(b))


def describe(impl):
    d = dict(impl)
    d["species"] = [{k: (str(v) if not isinstance(v, (int, float, str, bool, dict, type(None))) else v) for k, v in kw.items()} for kw in impl["species"]]
    if impl["space"][0] == "graph":
        d["space"] = ("graph", [{k: str(v) for k, v in n.items()} for n in impl["space"][1]])
    d["edits"] = [{k: (list(v) if isinstance(v, tuple) else v) for k, v in e.items()} for e in impl["edits"]]
    return d


def run(tier, selftest=False, only=None):
    rep = Report(PROP, tier)
    rep.rule = ("cases = seeded random systems (1-3 species with scalar / per-environment / 'default' / absent / explicit-unit "
                "densities and chemostat flags, grids and graphs with environment maps and per-node volumes, independent unit "
                "systems for species, network, space, nodes and system) + 1-4 edits (set_state with bare number or quantity in "
                "another system, set_chemostat; species by index / label / object, cell by index / coordinates); TLC computes the "
                "default arrays and the arrays after every edit as exact monomials and checks each edit touches only the "
                "addressed entry; the harness compares the full arrays (state in SI) after every step, all getters, and the "
                "regenerated defaults after editing a species; model: all shapes / all single edits (MC_Layout); "
                "distinct = distinct cases")
    rep.assumptions = ["amounts compared in molecules with rtol 1e-12"]
    seed = util.seed()
    rng = random.Random(seed * 11 + 13)
    r = tlc.run("MC_Layout", timeout=1200, heap="8g")
    rep.add_tlc("MC_Layout (index formulas, editor)", r)
    if not r.ok:
        if r.violated:
            rep.violation("model", "model:layout:" + r.violated, {"tlc": r.tail(30)})
        else:
            raise MachineryError("TLC failed: %s\n%s" % (r.error, r.tail(20)))
    sc = UO.scales(rep)
    allsys = list(itertools.product(sc["space"], sc["time"], sc["quantity"]))
    systems = [("µm", "s", "molecule")] + [rng.choice(allsys) for _ in range(12)]
    n = 400 if tier == "quick" else 6000
    cases = [gen_case(rng, systems) for _ in range(n)]
    d = util.subdir("eval")
    fin, fout = os.path.join(d, "layout_in.json"), os.path.join(d, "layout_out.json")
    with open(fin, "w") as f:
        json.dump([c[0] for c in cases], f)
    r = tlc.run("Eval_Layout", workers=1, env={"IN_FILE": fin, "OUT_FILE": fout}, timeout=1800, heap="6g")
    rep.add_tlc("Eval_Layout", r, note="operator evaluation (ASSUME), no state graph")
    if "EVAL-DONE" not in r.out:
        raise MachineryError("TLC evaluation failed: %s\n%s" % (r.error, r.tail(20)))
    out = json.load(open(fout))
    for (spec, impl), exp in zip(cases, out):
        rep.case(spec)
        tag = {"case": describe(impl)}
        with rep.guard("layout", tag):
            _case(rep, spec, impl, exp, tag)
    with rep.guard("position-forms", None):
        large_grid_positions(rep, rng)
    with rep.guard("omitted-space", None):
        omitted_space_checks(rep, systems)
    with rep.guard("own-inputs", None):
        own_inputs_checks(rep)
    history_checks(rep, tier, seed, rng)
    rep.traces = len(cases)
    rep.sample({"spec_case": cases[0][0], "expected_default_state": [float(UO.mono(m)) for m in out[0]["state"]]})
    if selftest:
        spec, impl = cases[0]
        system = build(impl)
        want = [float(UO.mono(m)) for m in out[0]["state"]]
        perm = list(reversed(want))
        rep.selftest("a permuted expected array differs from the implementation's",
                     perm == want or not all(close(a, b) for a, b in zip(si_state(system), perm)))
    return rep.finish()


def position_forms(x, y, z, w, h):
    """every accepted way of naming the cell (x, y, z) of a grid w x h x ..: the linear index z*w*h + y*w + x as a Python or
    numpy integer, and the coordinates as tuple / list / array of Python ints, of numpy integers of any width, or as an object"""
    import numpy as np
    lin = z * w * h + y * w + x
    return {"index": lin, "index-np.int64": np.int64(lin), "index-np.int32": np.int32(lin),
            "tuple": (x, y, z), "list": [x, y, z], "array-int64": np.array([x, y, z], dtype=np.int64),
            "array-int32": np.array([x, y, z], dtype=np.int32), "array-int16": np.array([x, y, z], dtype=np.int16),
            "array-uint8": np.array([x, y, z], dtype=np.uint8), "array-int8": np.array([x, y, z], dtype=np.int8),
            "tuple-of-np.uint8": (np.uint8(x), np.uint8(y), np.uint8(z)), "object": P(x, y, z),
            "object-np.uint8": P(np.uint8(x), np.uint8(y), np.uint8(z))}


def large_grid_positions(rep, rng):
    """On a grid with more cells than a narrow integer type can count, every form of a position names the same entry
    (layout index = species x ncells + z*w*h + y*w + x) for the getters and the setters."""
    w, h, d = 8, 8, 5
    n = w * h * d
    net = RDNetwork(species=[Species("A", density=1.0), Species("B", density=2.0)], reactions=[])
    base = [float(k) for k in range(2 * n)]
    for _ in range(12):
        x, y, z = rng.randrange(w), rng.randrange(h), rng.randrange(d)
        s = rng.randrange(2)
        want = s * n + z * w * h + y * w + x
        for form, pos in position_forms(x, y, z, w, h).items():
            system = RDSystem(network=net, space=RDGridSpace(w=w, h=h, d=d), state=UnitArray(list(base), "molecule"))
            rep.case(["position-form", form, x, y, z, s])
            tag = {"grid": [w, h, d], "cell": [x, y, z], "species": s, "form": form, "expected_index": want}
            try:
                got = float(system.get_state("AB"[s], pos).convert("molecule").value)
                idx = int(system.get_state_index("AB"[s], pos))
                system.set_state("AB"[s], pos, -7.0)
                system.set_chemostat("AB"[s], pos, True)
                after = [float(v) for v in system.state.convert("molecule").value]
                chem = [int(v) for v in system.chemostats]
            except Exception as e:  # noqa
                rep.violation("position-forms", "layout:position-form-exception:" + form.split("-")[0], dict(tag, exc=repr(e)[:200]))
                continue
            changed = [k for k in range(2 * n) if after[k] != base[k]]
            if got != base[want] or idx != want or changed != [want] or [k for k in range(2 * n) if chem[k]] != [want]:
                rep.violation("position-forms", "layout:position-form-addresses-another-entry:" + form.split("-")[0],
                              dict(tag, read=got, index=idx, written=changed[:5], flagged=[k for k in range(2 * n) if chem[k]][:5]))


def _case(rep, spec, impl, exp, tag):
    if True:
        try:
            system = build(impl)
        except Exception as e:  # noqa
            rep.violation("default", "layout:build-exception", dict(tag, exc=repr(e)[:200]))
            return
        N, nS = impl["N"], spec["nS"]
        want = [float(UO.mono(m)) for m in exp["state"]]
        got = si_state(system)
        if len(got) != nS * N or not all(close(a, b) for a, b in zip(got, want)):
            k = next((i for i, (a, b) in enumerate(zip(got, want)) if not close(a, b)), -1)
            rep.violation("default", "layout:default-state", dict(tag, index=k, got=got, spec=want))
            return
        if [int(v) for v in system.chemostats] != [int(bool(b)) for b in exp["chem"]]:
            rep.violation("default", "layout:default-chemostats", dict(tag, got=[int(v) for v in system.chemostats], spec=exp["chem"]))
            return
        # the dictionary readers must produce the same defaults
        try:
            sd = build_from_dict(impl)
            gd = si_state(sd)
            if len(gd) != nS * N or not all(close(a, b) for a, b in zip(gd, want)):
                k = next((i for i, (a, b) in enumerate(zip(gd, want)) if not close(a, b)), -1)
                rep.violation("default", "layout:default-state:from-dictionary", dict(tag, index=k, got=gd, spec=want))
                return
            if [int(v) for v in sd.chemostats] != [int(bool(b)) for b in exp["chem"]]:
                rep.violation("default", "layout:default-chemostats:from-dictionary", dict(tag, got=[int(v) for v in sd.chemostats], spec=exp["chem"]))
                return
        except Exception as e:  # noqa
            rep.violation("default", "layout:build-from-dictionary-exception", dict(tag, exc=repr(e)[:200]))
            return
        labels = [kw["label"] for kw in impl["species"]]
        ok = True
        for e, st in zip(impl["edits"], exp["steps"]):
            s, c = e["s"], e["c"]
            spf = [s, labels[s], system.network.species[s]][e["_sp"]]
            pos = c
            if impl["dims"] and e["_pos"] > 0:
                w, h, dd = impl["dims"]
                xyz = (c % w, (c % (w * h)) // w, c // (w * h))
                pos = xyz if e["_pos"] == 1 else P(*xyz)
            if not st["only"]:
                rep.violation("model", "model:layout:OnlyAddressed", tag)
            try:
                if e["op"] == "set_state":
                    v = e["_v"] if e["_form"] == "bare" else UnitValue(e["_v"], e["_sys"][2])
                    system.set_state(spf, pos, v)
                else:
                    system.set_chemostat(spf, pos, e["b"])
            except Exception as ex:  # noqa
                rep.violation("edit", "layout:edit-exception", dict(tag, edit=e, exc=repr(ex)[:200]))
                ok = False
                break
            got = si_state(system)
            want = [float(UO.mono(m)) for m in st["state"]]
            gc = [int(v) for v in system.chemostats]
            wc = [int(bool(b)) for b in st["chem"]]
            if not all(close(a, b) for a, b in zip(got, want)) or gc != wc:
                rep.violation("edit", "layout:edit:" + e["op"], dict(tag, edit={k: v for k, v in e.items() if k != "v"}, got=got, spec=want,
                                                                   got_chem=gc, spec_chem=wc))
                ok = False
                break
            # getters read that very entry
            gv = system.get_state(spf, pos).convert("molecule").value
            if not close(gv, want[s * N + c]) or int(system.get_chemostat(spf, pos)) != wc[s * N + c] \
                    or system.get_state_index(spf, pos) != s * N + c:
                rep.violation("edit", "layout:getter", dict(tag, edit={k: v for k, v in e.items() if k != "v"}, got=gv, spec=want[s * N + c]))
                ok = False
                break
        if not ok:
            return
        # regenerating the defaults after editing a species reflects the edit
        # (the species is edited through the object the caller created, or through the network's entry - one and the same species)
        s0 = system.network.species[0] if (N + nS) % 2 else build.last_species[0]
        eff = (s0.units_system["space"], s0.units_system["time"], s0.units_system["quantity"])
        s0.density = 4.0
        system.set_default_state()
        got = si_state(system)
        for c in range(N):
            want = 4.0 * float(UO.mono(mono_of(Fr(1), dens_scale(eff)))) * float(UO.mono(spec["vol"][c]))
            if not close(got[c], want):
                rep.violation("default", "layout:regenerated-default", dict(tag, cell=c, got=got[c], spec=want))
                break


def omitted_space_checks(rep, systems):
    """A system description without a "space" entry stands for one cell of volume 1 in the system's own units (documented
    default of the dictionary reader): the default state is then density x 1 [space unit]^3 like for any other space."""
    from strengths import rdsystem_from_dict
    for us in systems:
        d = {"units": {"space": us[0], "time": us[1], "quantity": us[2]},
             "network": {"species": [{"label": "A", "density": 3.0}, {"label": "B", "density": "2 molecule/µm3"}, {"label": "C"}],
                         "reactions": []}}
        rep.case(["omitted-space", list(us)])
        tag = {"description": d}
        try:
            system = rdsystem_from_dict(json.loads(json.dumps(d)))
            got = si_state(system)
        except Exception as ex:  # noqa
            rep.violation("default", "layout:omitted-space-exception", dict(tag, exc=repr(ex)[:200]))
            continue
        cell_m3 = Fr(10) ** (3 * SP_EXP[us[0]])
        want = [float(UO.mono(mono_of(Fr(3), qty_scale(us)))), float(2 * cell_m3 / Fr(10) ** (3 * SP_EXP["µm"])), 0.0]
        if len(got) != 3 or not all(close(a, b) for a, b in zip(got, want)):
            rep.violation("default", "layout:default-state:omitted-space", dict(tag, got=got, spec=want))


def own_inputs_checks(rep):
    """What a system, its network and its space are built from is theirs afterwards: the caller overwriting, in place, a list,
    array or dictionary it passed to a constructor changes neither the arrays the system holds nor the defaults it regenerates."""
    net = lambda **kw: RDNetwork(species=[Species("A", **kw), Species("B", density=5.0)], reactions=[], environments=["a", "b"])
    grid = lambda env=(0, 1): RDGridSpace(w=2, cell_env=env if not isinstance(env, tuple) else list(env), cell_vol=2.0)

    def view(system):
        regenerated = system.copy()
        regenerated.set_default_state()
        regenerated.set_default_chemostats()
        return [si_state(system), [int(v) for v in system.chemostats], si_state(regenerated), [int(v) for v in regenerated.chemostats]]

    def overwrite(x):
        if isinstance(x, dict):
            flags = all(isinstance(v, bool) for v in x.values())
            for k_ in sorted(set(x) | {"a", "b", "default"}):          # every entry overwritten once, missing ones added
                x[k_] = (not x.get(k_, False)) if flags else 77.0
        elif isinstance(x, UnitArray):
            x.value[:] = 77.0
        elif isinstance(x, np.ndarray):
            x[:] = (1 - x) if x.dtype.kind in "iub" else 77.0
        else:
            x[:] = [(1 - v) if v in (0, 1) else 77.0 for v in x]
    cases = []
    for name, mk in (("density-dict", lambda: {"a": 1.0, "default": 3.0}), ("chstt-dict", lambda: {"a": True, "b": False})):
        key = "density" if name.startswith("density") else "chstt"
        cases.append((name, lambda mk=mk, key=key: (lambda d: (RDSystem(network=net(**{key: d}), space=grid()), d))(mk())))
    for name, mk in (("cell_env-list", lambda: [0, 1]), ("cell_env-ndarray", lambda: np.array([0, 1]))):
        cases.append((name, lambda mk=mk: (lambda e: (RDSystem(network=net(density={"a": 1.0, "b": 4.0}, chstt={"b": True}), space=grid(e)), e))(mk())))
    for name, mk in (("state-list", lambda: [1.0, 2.0, 3.0, 4.0]), ("state-ndarray", lambda: np.array([1.0, 2.0, 3.0, 4.0])),
                     ("state-UnitArray", lambda: UnitArray([1.0, 2.0, 3.0, 4.0], "molecule"))):
        cases.append((name, lambda mk=mk: (lambda x: (RDSystem(network=net(density=1.0), space=grid(), state=x), x))(mk())))
    for name, mk in (("chemostats-list", lambda: [0, 1, 0, 0]), ("chemostats-ndarray", lambda: np.array([0, 1, 0, 0])),
                     ("chemostats-bool-ndarray", lambda: np.array([False, True, False, False]))):
        cases.append((name, lambda mk=mk: (lambda x: (RDSystem(network=net(density=1.0), space=grid(), chemostats=x), x))(mk())))
    for name, build_fn in cases:
        rep.case(["own-inputs", name])
        try:
            system, handed = build_fn()
            before = view(system)
            overwrite(handed)
            after = view(system)
        except Exception as ex:  # noqa
            rep.violation("default", "layout:own-inputs-exception:" + name, {"exc": repr(ex)[:200]})
            continue
        if before != after:
            rep.violation("default", "layout:system-follows-an-object-held-by-the-caller:" + name,
                          {"held_and_regenerated_before": before, "after_the_caller_overwrote_what_it_passed": after})


# ---- histories of one system object (specs/SystemEdit.tla): TLC generates call sequences, the object is driven along them ----
SE_LABELS = ["A", "B"]
SE_ENVS = ["a", "b"]
SE_SPACES = {"Gen_SystemEdit": ("graph", [0, 1, 0], [1, 2, 3]), "Gen_SystemEditGrid": ("grid", [0, 1, 0], [2, 2, 2])}


def _tab_arg(tab, conv, rng):
    """A species' density / chemostat table as the argument a user would write: a scalar when every entry is the same, else a
    dictionary with the entries that are present ('default' first slot)."""
    keys = ["default"] + SE_ENVS
    present = {k: conv(t["v"]) for k, t in zip(keys, tab) if "absent" not in t}
    if len(present) == len(keys) and len(set(present.values())) == 1 and rng.random() < 0.7:
        return present["default"]
    items = list(present.items())            # the order of the keys carries no meaning
    rng.shuffle(items)
    return dict(items)


def se_build(prog, cfg, rng):
    se_build.handed = []       # the dictionaries handed to the species: the caller still holds them
    kind, cell_env, vol = SE_SPACES[cfg]
    fl = lambda m: float(UO.mono(m))
    made = []
    for s in range(len(prog["dens"])):
        kw = {"label": SE_LABELS[s]}
        d = _tab_arg(prog["dens"][s], fl, rng)
        if d != {} or rng.random() < 0.5:
            kw["density"] = d
        c = _tab_arg(prog["chs"][s], bool, rng)
        if c != {} or rng.random() < 0.5:
            kw["chstt"] = c
        made.append(Species(**kw))
        se_build.handed += [v for v in (kw.get("density"), kw.get("chstt")) if isinstance(v, dict)]
    net = RDNetwork(species=made, reactions=[], environments=SE_ENVS)
    if kind == "graph":
        space = RDGraphSpace(nodes=[RDGraphSpaceNode(volume=float(v), environment=e) for v, e in zip(vol, cell_env)], edges=[])
    else:
        space = RDGridSpace(w=len(vol), h=1, d=1, cell_vol=float(vol[0]), cell_env=cell_env)
    return RDSystem(network=net, space=space, units_system=UnitsSystem(quantity=prog["sysq"]))


def se_observe(system):
    return si_state(system), [int(v) for v in system.chemostats]


def _overwrite(given):
    """the caller re-uses, in place, an array it handed over earlier"""
    if isinstance(given, dict):
        for k_ in ["default"] + SE_ENVS:          # every entry overwritten, missing ones added
            given[k_] = (not given.get(k_, False)) if all(isinstance(v, bool) for v in given.values()) else 99.0
    elif isinstance(given, np.ndarray):
        given[:] = (1 - given) if given.dtype.kind in "iub" else -7.0
    elif isinstance(given, UnitArray):
        given.value[:] = -7.0
    elif given and isinstance(given[0], bool):
        given[:] = [not x for x in given]
    else:
        given[:] = [1 - x if x in (0, 1) else -7.0 for x in given]


def se_replay(rep, prog, cfg, rng, tag):
    from strengths import rdsystem_from_dict, rdsystem_to_dict
    kind, cell_env, vol = SE_SPACES[cfg]
    N = len(cell_env)
    fl = lambda m: float(UO.mono(m))

    def differs(system, st, where, step=0):
        try:
            got, gc = se_observe(system)
        except Exception as ex:  # noqa
            rep.violation("history", "layout:history:unreadable-after:" + where, dict(tag, step=step, exc=repr(ex)[:200]))
            return True
        want, wc = [fl(m) for m in st["state"]], [int(bool(b)) for b in st["chem"]]
        if len(got) != len(want) or not all(close(a, b) for a, b in zip(got, want)) or gc != wc:
            rep.violation("history", "layout:history:" + where, dict(tag, step=step, got=got, spec=want, got_chem=gc, spec_chem=wc))
            return True
        return False

    try:
        system = se_build(prog, cfg, rng)
    except Exception as ex:  # noqa
        rep.violation("history", "layout:history:build-exception", dict(tag, exc=repr(ex)[:200]))
        return
    if differs(system, prog, "initial"):
        return
    kept = []
    handed = list(se_build.handed)          # what the caller handed over (dictionaries to the species, arrays to the system) and still holds
    for k, st in enumerate(prog["steps"]):
        op, a = st["op"], st["args"]
        where = op
        try:
            if op in ("set_state", "set_chem"):
                s, c = a["s"], a["c"]
                spf = [s, SE_LABELS[s], system.network.species[s]][rng.randrange(3)]
                pos = c if kind == "graph" or rng.random() < 0.5 else rng.choice([(c, 0, 0), P(c, 0, 0)])
                if op == "set_state":
                    if a["u"] == "bare":
                        v = rng.choice([a["v"], float(a["v"])])
                    else:
                        v = rng.choice([UnitValue(a["v"], a["u"]), "%d %s" % (a["v"], a["u"])])
                    system.set_state(spf, pos, v)
                else:
                    system.set_chemostat(spf, pos, rng.choice([a["b"], int(a["b"])]))
            elif op == "reset_state":
                system.reset_state()
            elif op == "reset_chem":
                system.reset_chemostats()
            elif op == "regen_state":
                system.set_default_state()
            elif op == "regen_chem":
                system.set_default_chemostats()
            elif op == "edit_dens":
                given = _tab_arg(st["dens"][a["s"] - 1], fl, rng)
                system.network.species[a["s"] - 1].density = given
                if isinstance(given, dict):
                    handed.append(given)
            elif op == "edit_chs":
                given = _tab_arg(st["chs"][a["s"] - 1], bool, rng)
                system.network.species[a["s"] - 1].chstt = given
                if isinstance(given, dict):
                    handed.append(given)
            elif op == "edit_env":
                if kind == "graph":
                    system.space.nodes[a["c"]].environment = a["e"]
                else:
                    env = list(system.space.cell_env)
                    env[a["c"]] = a["e"]
                    system.space.cell_env = rng.choice([env, np.array(env)])
            elif op == "edit_vol":
                if kind == "graph":
                    system.space.nodes[a["c"]].volume = rng.choice([float(a["v"]), a["v"], "%d µm3" % a["v"]])
                else:
                    system.space.cell_vol = rng.choice([float(a["v"]), a["v"], "%d µm3" % a["v"]])
            elif op == "assign_state":
                arr = [float((i * a["k"]) % 4) for i in range(1, len(SE_LABELS) * N + 1)]
                # (the system keeps its own array: what the caller does to the object it handed over afterwards changes nothing)
                given = rng.choice([arr, np.array(arr)]) if a["u"] == "bare" else UnitArray(arr, a["u"])
                system.state = given
                handed.append(given)
                if rng.random() < 0.5:          # right away, or whenever the specification's CallerEdits step comes
                    _overwrite(handed.pop())
            elif op == "assign_chem":
                arr = [(i + a["k"]) % 2 for i in range(1, len(SE_LABELS) * N + 1)]
                given = rng.choice([arr, np.array(arr), np.array(arr, dtype=int), [bool(x) for x in arr]])
                system.chemostats = given
                handed.append(given)
                if rng.random() < 0.5:
                    _overwrite(handed.pop())
            elif op == "caller_edits":
                while handed:
                    _overwrite(handed.pop())
            elif op == "copy":
                kept.append((system, k, (prog["steps"][k - 1] if k else prog)))
                system = system.copy()
            elif op == "roundtrip":
                how = rng.randrange(3)          # through the dictionary, through JSON text, through a file
                if how == 0:
                    system = rdsystem_from_dict(rdsystem_to_dict(system))
                elif how == 1:
                    system = rdsystem_from_dict(json.loads(json.dumps(rdsystem_to_dict(system))))
                else:
                    from strengths import load_rdsystem, save_rdsystem
                    path = os.path.join(util.subdir("c13_files"), "sys_%d.json" % os.getpid())
                    save_rdsystem(system, path)
                    system = load_rdsystem(path)
            else:
                raise MachineryError("unknown operation in a generated history: %r" % op)
        except MachineryError:
            raise
        except Exception as ex:  # noqa
            rep.violation("history", "layout:history:exception:" + op, dict(tag, step=k + 1, exc=repr(ex)[:200]))
            return
        if differs(system, st, where, k + 1):
            return
        # a getter reads the very entry the specification holds at that place
        s, c = rng.randrange(len(SE_LABELS)), rng.randrange(N)
        try:
            gv = system.get_state(SE_LABELS[s], c).convert("molecule").value
            gb = int(system.get_chemostat(s, c))
        except Exception as ex:  # noqa
            rep.violation("history", "layout:history:getter-exception-after:" + op, dict(tag, step=k + 1, exc=repr(ex)[:200]))
            return
        if not close(gv, fl(st["state"][s * N + c])) or gb != int(bool(st["chem"][s * N + c])):
            rep.violation("history", "layout:history:getter-after:" + op, dict(tag, step=k + 1, species=s, cell=c, got=gv, got_flag=gb))
            return
    # the originals of the copies are what they were when they were copied
    for orig, k, st in kept:
        if differs(orig, st, "original-changed-after-copy"):
            return


def history_checks(rep, tier, seed, rng):
    depth = 2 if tier == "quick" else 3
    tlc.write_cfg("MC_SystemEdit_d", open(tlc.workdir() + "/MC_SystemEdit.cfg").read().replace("Depth = 3", "Depth = %d" % depth))
    r = tlc.run("MC_SystemEdit", cfg="MC_SystemEdit_d", timeout=3000, heap="12g")
    rep.add_tlc("MC_SystemEdit (every history of %d calls on a 3-cell, 2-species, 2-environment system)" % depth, r)
    if not r.ok:
        if r.violated:
            rep.violation("model", "model:systemedit:" + r.violated, {"tlc": r.tail(30)})
        else:
            raise MachineryError("TLC failed: %s\n%s" % (r.error, r.tail(20)))
    want, tmo = (1500, 40) if tier == "quick" else (20000, 240)
    ops = {}
    total = 0
    for cfg in sorted(SE_SPACES):
        lines, st = tlc.stream("MC_SystemEdit", cfg, want, seed=seed * 7 + 1, simulate_depth=16, timeout=tmo)
        if st["error"]:
            raise MachineryError("TLC generator failed: %s\n%s" % (st["error"], "\n".join(st["other_tail"])))
        if len(lines) < want // 10:
            raise MachineryError("TLC generated only %d histories for %s" % (len(lines), cfg))
        for l in lines:
            prog = json.loads(tlc.unquote_tla_json(l))
            total += 1
            for stp in prog["steps"]:
                ops[stp["op"]] = ops.get(stp["op"], 0) + 1
            rep.case({"history": [(x["op"], x["args"]) for x in prog["steps"]], "cfg": cfg, "sysq": prog["sysq"], "dens": prog["dens"]})
            tag = {"cfg": cfg, "sysq": prog["sysq"], "history": [(x["op"], x["args"]) for x in prog["steps"]],
                   "initial_density_tables": prog["dens"], "initial_chemostat_tables": prog["chs"]}
            with rep.guard("history", tag):
                se_replay(rep, prog, cfg, rng, tag)
    rep.extra["edit_histories_replayed"] = total
    rep.extra["edit_history_calls_by_kind"] = ops
    missing = {"set_state", "set_chem", "reset_state", "reset_chem", "regen_state", "regen_chem", "edit_dens", "edit_chs", "assign_state",
               "assign_chem", "copy", "roundtrip", "edit_env", "edit_vol", "caller_edits"} - set(ops)
    if missing:
        raise MachineryError("generated histories never contain: %s" % sorted(missing))


def replay(rp):
    return run("quick")
