"""C06 - Unit conversion is exact SI scaling and composes."""
import itertools
import random
from fractions import Fraction as Fr

import numpy as np

from .. import units_oracle as UO
from ..vlib import tlc, util
from ..vlib.report import MachineryError, Report

util.ensure_repo_importable()
from strengths import UnitArray, UnitValue, Units, UnitsSystem  # noqa: E402
from strengths.units import UnitsDimensions  # noqa: E402

PROP = "C06"
RTOL = 1e-12
KINDS = ("space", "time", "quantity")


def close(a, b, rtol=RTOL):
    return a == b or abs(a - b) <= rtol * max(abs(a), abs(b))


def mk_sys(t):
    return UnitsSystem(space=t[0], time=t[1], quantity=t[2])


_mk_units_calls = [0]


def mk_units(t, dim):
    """Units of a system and a dimension; the dimension as an object or (two calls out of three) as a dictionary whose keys are
    written in another order each time - the order carries no meaning."""
    _mk_units_calls[0] += 1
    k = _mk_units_calls[0] % 6
    if k % 3 == 0:
        return Units(mk_sys(t), UnitsDimensions(space=dim[0], time=dim[1], quantity=dim[2]))
    names = [("space", "time", "quantity"), ("time", "quantity", "space"), ("quantity", "space", "time"), ("time", "space", "quantity"),
             ("quantity", "time", "space"), ("space", "quantity", "time")][k]
    val = {"space": dim[0], "time": dim[1], "quantity": dim[2]}
    return Units(mk_sys(t), {n: val[n] for n in names})


def ustr(t, dim):
    parts = []
    for u, e in zip(t, dim):
        if e != 0:
            parts.append(u if e == 1 else "%s%d" % (u, e))
    return ".".join(parts)


DEFAULT_SYS = ("µm", "s", "molecule")


def one(rep, sc, src, dst, dim, v, form, check):
    if form == "partial-dict":
        # a dictionary target may leave base units out: they are the documented defaults, whatever was converted before
        keep = [(abs(dim[0]) + 2 * abs(dim[1]) + len(src[2]) + k) % 2 == 0 for k in range(3)]
        if all(keep):
            keep[1] = False
        dst = tuple(d if kp else dflt for d, kp, dflt in zip(dst, keep, DEFAULT_SYS))
    exp = float(Fr(v) * UO.conv(sc, src, dst, dim))
    with rep.guard(check, {"src": src, "dst": dst, "dim": dim, "form": form}):
        _one(rep, sc, src, dst, dim, v, form, check, exp)


def _one(rep, sc, src, dst, dim, v, form, check, exp):
    q = UnitValue(v, mk_units(src, dim))
    try:
        if form == "system":
            r = q.convert(mk_sys(dst))
        elif form == "dict":
            r = q.convert({"space": dst[0], "time": dst[1], "quantity": dst[2]})
        elif form == "partial-dict":
            r = q.convert({k: d for k, d, dflt in zip(("space", "time", "quantity"), dst, DEFAULT_SYS) if d != dflt})
        elif form == "units":
            r = q.convert(mk_units(dst, dim))
        elif form == "value":
            r = q.convert(UnitValue(7.0, mk_units(dst, dim)))
        elif form == "str":
            r = q.convert(ustr(dst, dim))
        elif form == "array":
            a = UnitArray([v, 2 * v, -v], mk_units(src, dim))
            r0 = a.convert(mk_sys(dst))
            if [float(x) for x in a.value] != [v, 2 * v, -v]:
                rep.violation(check, "conv:source-array-modified", {"src": src, "dst": dst, "dim": dim})
                return
            a.convert(mk_sys(("km", "h", "kmol")))
            r = a.convert(mk_sys(dst))              # a second conversion of the same object gives the same result
            if [float(x) for x in r.value] != [float(x) for x in r0.value]:
                rep.violation(check, "conv:repeated-conversion-differs", {"src": src, "dst": dst, "dim": dim,
                                                                         "first": [float(x) for x in r0.value], "again": [float(x) for x in r.value]})
                return
    except Exception as e:  # noqa
        rep.violation(check, "conv:exception:" + form, {"src": src, "dst": dst, "dim": dim, "exc": repr(e)[:200]})
        return
    rep.case(["conv", src, dst, dim, form], nontrivial=(src != dst and any(dim)))
    if form == "array":
        got = [float(x) for x in r.value]
        want = [exp, 2 * exp, -exp]
        good = all(close(a, b) for a, b in zip(got, want))
    else:
        got, want = r.value, exp
        good = close(got, want)
    rdim = (r.units.dim["space"], r.units.dim["time"], r.units.dim["quantity"])
    # a "str" target with a zero exponent does not name that base unit: the system keeps the default there
    dsys = (r.units.sys["space"], r.units.sys["time"], r.units.sys["quantity"])
    sysok = all(dsys[k] == dst[k] for k in range(3) if (form != "str" or dim[k] != 0))
    if not good or rdim != tuple(dim) or not sysok:
        kind = "value" if not good else ("dimension" if rdim != tuple(dim) else "system")
        which = [k for k in range(3) if src[k] != dst[k] and dim[k] != 0]
        rep.violation(check, "conv:%s:%s" % (kind, "+".join(KINDS[k] for k in which) or "none"),
                      {"src": src, "dst": dst, "dim": dim, "value": v, "form": form, "got": got, "expected": want,
                       "got_dim": rdim, "got_sys": dsys})


def run(tier, selftest=False, only=None):
    rep = Report(PROP, tier)
    rep.rule = ("model: all triples of units of one base kind x exponents -4..4 (identity, inverse, composition, power law, "
                "factorisation over kinds, litre = cubic family, molar = mol per litre, prefix table) checked by TLC; "
                "implementation: every same-kind pair x exponent, seeded pairs of full unit systems x dimension vectors "
                "(thorough: all 1100 x 1100), every accepted target form, scalar and array; expected factors are the exact "
                "monomials TLC exports; distinct = distinct (src, dst, dim, form); non-trivial = systems differ on a base "
                "with non-zero exponent")
    rep.assumptions = ["relative tolerance 1e-12 between binary64 results and exact factors",
                       "Avogadro's number = 6.02214076e23 exactly (SI 2019)"]
    seed = util.seed()
    rng = random.Random(seed * 101 + 6)
    r = tlc.run("MC_Conv", timeout=900)
    rep.add_tlc("MC_Conv (all same-kind triples x exponents)", r)
    if not r.ok:
        if r.violated:
            rep.violation("model", "model:conv:" + r.violated, {"tlc": r.tail(40)})
        else:
            raise MachineryError("TLC failed: %s\n%s" % (r.error, r.tail(20)))
    rep.exhaustive = True
    sc = UO.scales(rep)
    S, T, Q = list(sc["space"]), list(sc["time"]), list(sc["quantity"])
    default = ("µm", "s", "molecule")
    # (a) every same-kind pair x exponent
    for k, units in enumerate((S, T, Q)):
        for a, b in itertools.product(units, units):
            for e in range(-4, 5):
                src, dst, dim = list(default), list(default), [0, 0, 0]
                src[k], dst[k], dim[k] = a, b, e
                one(rep, sc, tuple(src), tuple(dst), tuple(dim), rng.choice([1.0, 2.5, -3.0, 1e-7, 12345.678]), "system", "same-kind")
    # (b) full systems
    systems = list(itertools.product(S, T, Q))
    if tier == "quick":
        pairs = [(rng.choice(systems), rng.choice(systems)) for _ in range(4000)]
    else:
        pairs = list(itertools.product(systems, systems))
    forms = ["system", "dict", "units", "value", "str", "array", "partial-dict"]
    for idx, (src, dst) in enumerate(pairs):
        dim = (rng.randint(-3, 3), rng.randint(-3, 3), rng.randint(-3, 3))
        form = forms[idx % len(forms)] if tier == "quick" else forms[(idx // 7) % len(forms)] if idx % 7 == 0 else "system"
        one(rep, sc, src, dst, dim, rng.choice([1.0, 0.75, -2.0, 3e5, 1e-9]), form, "full-systems")
    # (c) composition, round trip, identity, dimension errors
    ntri = 1500 if tier == "quick" else 40000
    for _ in range(ntri):
        a, b, c = rng.choice(systems), rng.choice(systems), rng.choice(systems)
        dim = (rng.randint(-3, 3), rng.randint(-3, 3), rng.randint(-3, 3))
        v = rng.choice([1.0, 0.3, -7.5, 1e12])
        q = UnitValue(v, mk_units(a, dim))
        qa = UnitArray([v, 3 * v], mk_units(a, dim))
        a_direct = [float(x) for x in qa.convert(mk_sys(c)).value]
        a_via = [float(x) for x in qa.convert(mk_sys(b)).convert(mk_sys(c)).value]
        a_back = [float(x) for x in qa.convert(mk_sys(b)).convert(mk_sys(a)).value]
        a_again = [float(x) for x in qa.convert(mk_sys(c)).value]
        if not (all(close(x, y) for x, y in zip(a_direct, a_via)) and all(close(x, y) for x, y in zip(a_back, [v, 3 * v]))
                and a_again == a_direct and [float(x) for x in qa.value] == [v, 3 * v]):
            rep.violation("composition", "conv:composition:array", {"a": a, "b": b, "c": c, "dim": dim, "direct": a_direct, "via": a_via,
                                                                    "back": a_back, "again": a_again, "source_now": [float(x) for x in qa.value]})
        direct = q.convert(mk_sys(c)).value
        via = q.convert(mk_sys(b)).convert(mk_sys(c)).value
        back = q.convert(mk_sys(b)).convert(mk_sys(a)).value
        same = q.convert(mk_sys(a)).value
        rep.case(["compose", a, b, c, dim])
        if not close(direct, via) or not close(back, v):
            rep.violation("composition", "conv:composition", {"a": a, "b": b, "c": c, "dim": dim, "direct": direct, "via": via, "back": back, "v": v})
        if same != v:
            rep.violation("composition", "conv:identity-not-exact", {"a": a, "dim": dim, "v": v, "got": same})
        # conversion to a different dimension raises
        other = list(dim)
        other[rng.randrange(3)] += rng.choice([-1, 1])
        for target in (mk_units(b, other), UnitValue(1.0, mk_units(b, other)), ustr(b, other) or "m"):
            if isinstance(target, str) and tuple(other) == (0, 0, 0):
                continue
            try:
                q.convert(target)
                rep.violation("dimension", "conv:cross-dimension-accepted", {"dim": dim, "target_dim": other, "target": str(type(target).__name__)})
            except Exception:
                pass
            try:
                UnitArray([v], mk_units(a, dim)).convert(target)
                rep.violation("dimension", "conv:cross-dimension-accepted:array", {"dim": dim, "target_dim": other})
            except Exception:
                pass
    # (d) litre and molar families through text targets
    m3 = ("m", "s", "molecule")
    for u, scale in sc["volume"].items():
        for e in (1, -1, 2):
            got = UnitValue(1.0, u + (str(e) if e != 1 else "")).convert(mk_sys(m3)).value
            rep.case(["litre", u, e])
            if not close(got, float(scale ** e)):
                rep.violation("families", "conv:litre:" + u, {"unit": u, "exp": e, "got": got, "expected": float(scale ** e)})
    for u, scale in sc["density"].items():
        for e in (1, -1):
            got = UnitValue(1.0, u + (str(e) if e != 1 else "")).convert(mk_sys(m3)).value
            rep.case(["molar", u, e])
            if not close(got, float(scale ** e)):
                rep.violation("families", "conv:molar:" + u, {"unit": u, "exp": e, "got": got, "expected": float(scale ** e)})
    # (e) unit strings in which a base occurs several times - explicitly (m/s/s) or through the litre and molar symbols
    #     (M.L = mol, mL/cm3 = 1): the exponents of one base add up before anything is converted
    vol, den = sc["volume"], sc["density"]
    composites = []
    for a, b in [("m", "s"), ("km", "h"), ("µm", "ms"), ("cm", "min")]:
        fa = UO.conv(sc, (a, b, "molecule"), m3, (1, -2, 0))
        composites.append(("%s/%s/%s" % (a, b, b), fa, "m/s/s"))
        composites.append(("%s.%s-1.%s-1" % (a, b, b), fa, "m.s-2"))
        composites.append(("%s.%s/%s" % (a, a, b), UO.conv(sc, (a, b, "molecule"), m3, (2, -1, 0)), "m2/s"))
        # a negative exponent after "/" is a double negation: a/b-1 = a.b
        composites.append(("%s/%s-1" % (a, b), UO.conv(sc, (a, b, "molecule"), m3, (1, 1, 0)), "m.s"))
        composites.append(("%s-1/%s-1" % (a, b), UO.conv(sc, (a, b, "molecule"), m3, (-1, 1, 0)), "s/m"))
        composites.append(("%s-2/%s-2/%s" % (b, a, a), UO.conv(sc, (a, b, "molecule"), m3, (1, -2, 0)), "m.s-2"))
    for mu in den:
        for b in ("s", "min", "ms"):
            composites.append(("%s-1/%s-1" % (b, mu), den[mu] * UO.conv(sc, ("m", b, "molecule"), m3, (0, -1, 0)), ""))
        qu = mu[:-1] + "mol"                    # the amount unit the molar symbol is built on (one base unit per base in a string)
        composites.append(("%s/L-1/%s" % (qu, mu), sc["quantity"][qu] * vol["L"] / den[mu], ""))
    # (a string may name one base several times only through the SAME base unit: the molar symbols are per dm3 = L,
    #  and each litre symbol is the cube of one length unit)
    cube_of = {lu: su for lu in vol for su in sc["space"] if UO.conv(sc, (su, "s", "molecule"), m3, (3, 0, 0)) == vol[lu]}
    for mu in den:
        composites.append(("%s.L" % mu, den[mu] * vol["L"], "molecule"))                      # concentration x volume = amount
        composites.append(("L.%s" % mu, den[mu] * vol["L"], "molecule"))
        composites.append(("%s.dm3" % mu, den[mu] * vol["L"], "molecule"))
    for lu, su in cube_of.items():
        composites.append(("%s/%s3" % (lu, su), Fr(1), ""))                                   # a pure number
        composites.append(("%s.%s-2" % (lu, su), UO.conv(sc, (su, "s", "molecule"), m3, (1, 0, 0)), "m"))
    for text, factor, target in composites:
        rep.case(["composite", text])
        try:
            got = UnitValue(1.0, text).convert(mk_sys(m3))
            gv = got.value
            if target:
                gv2 = UnitValue(1.0, text).convert(target).value
            else:
                gv2 = gv
        except Exception as e:  # noqa
            rep.violation("families", "conv:composite-string-exception", {"text": text, "exc": repr(e)[:160]})
            continue
        if not close(gv, float(factor)) or not close(gv2, float(factor)):
            rep.violation("families", "conv:composite-string", {"text": text, "got": [gv, gv2], "expected": float(factor), "as": str(got.units)})
    rep.traces = rep.evaluations
    rep.sample({"src": ["km", "h", "mol"], "dst": ["µm", "ms", "molecule"], "dim": [2, -1, 1],
                "expected_factor": float(UO.conv(sc, ("km", "h", "mol"), ("µm", "ms", "molecule"), (2, -1, 1)))})
    if selftest:
        probe = Report("C06-selftest", "quick")
        bad = dict(sc)
        bad["pairs"] = {k: dict(v) for k, v in sc["pairs"].items()}
        bad["pairs"]["space"][("dmm", "m")] = {e: f * 10 for e, f in sc["pairs"]["space"][("dmm", "m")].items()}
        one(probe, bad, ("dmm", "s", "molecule"), ("m", "s", "molecule"), (1, 0, 0), 1.0, "system", "selftest")
        rep.selftest("expected factor off by 10 for dmm", len(probe.violations) == 1)
    return rep.finish()


def replay(rp):
    return run("quick")
