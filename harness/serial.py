"""Dictionary descriptions of a physical model under a units-declaration tree (Serialize.tla), and the
comparator of physical content used by the round-trip (C12), unit-independence (C04) and rejection (C20) checks."""
import copy
import json
import random
from fractions import Fraction as Fr

import numpy as np

from . import rd_model
from . import units_oracle as UO
from .vlib import util

util.ensure_repo_importable()
import strengths  # noqa: E402
from strengths import UnitsSystem  # noqa: E402
import strengths.value_processing as valproc  # noqa: E402

D = ("µm", "s", "molecule")
DIM = {"D": (2, -1, 0), "density": (-3, 0, 1), "volume": (3, 0, 0), "surface": (2, 0, 0), "distance": (1, 0, 0),
       "amount": (0, 0, 1), "time": (0, 1, 0)}


def kdim(order):
    return (3 * order - 3, -1, 1 - order)


def ustr(sys_, dim):
    parts = []
    for u, e in zip(sys_, dim):
        if e != 0:
            parts.append(u if e == 1 else "%s%d" % (u, e))
    return ".".join(parts)


class Describer:
    """Renders a Model (quantities as exact Fractions in the default units) as a dictionary under a declaration tree.
    decl / eff: per level, the declaration ('absent' | 'inherit' | 'default' | 'S1' | 'S2') and the effective system name."""

    def __init__(self, sc, systems, rng, explicit_p=0.25, aliases=None, alias_p=0.0):
        self.sc, self.systems, self.rng = sc, dict(systems, D=D), rng
        self.explicit_p = explicit_p
        self.aliases, self.alias_p = aliases, alias_p

    def sysdict(self, name):
        """The declaration of a units system. A component equal to the documented default (µm, s, molecule) may be left out:
        omitted components take the documented defaults, wherever the dictionary is nested."""
        s = self.systems[name]
        d = {"space": s[0], "time": s[1], "quantity": s[2]}
        if self.alias_p > 0 or self.explicit_p > 0:
            for k, dv in (("space", D[0]), ("time", D[1]), ("quantity", D[2])):
                if d[k] == dv and self.rng.random() < 0.5:
                    del d[k]
            items = list(d.items())          # the order of the keys carries no meaning
            self.rng.shuffle(items)
            d = dict(items)
        return d

    def units_key(self, d, level, decl):
        v = decl[level]
        if v == "absent":
            return
        d["units"] = v if v in ("default", "inherit") else self.sysdict(v)

    def num(self, value, dim, level, eff, allow_explicit=True):
        """value: Fraction in default units -> bare number in the level's effective system, or explicit text."""
        if allow_explicit and self.rng.random() < self.explicit_p and any(dim):
            x = self.rng.choice(list(self.systems.values()))
            f = value * UO.conv(self.sc, D, x, dim)
            return "%r %s" % (float(f), ustr(x, dim))
        f = value * UO.conv(self.sc, D, self.systems[eff[level]], dim)
        return float(f)

    def perenv(self, v, dim, level, eff):
        if isinstance(v, dict):
            out = {k: self.num(x, dim, level, eff) for k, x in v.items()}
            # documented shorthand: one entry for several environments, "a, b": value
            ks = [k for k in v if k != "default"]
            if len(ks) >= 2 and v[ks[0]] == v[ks[1]] and self.rng.random() < 0.5:
                val = out.pop(ks[0])
                out.pop(ks[1])
                out[self.rng.choice(["%s,%s", "%s, %s", " %s ,%s "]) % (ks[0], ks[1])] = val
            return out
        return self.num(v, dim, level, eff)

    def rename(self, kind, d):
        """replace canonical keys by random aliases"""
        if not self.aliases or self.alias_p <= 0:
            return d
        out = {}
        for k, v in d.items():
            group = [g for g in self.aliases[kind] if g[0] == k]
            if group and self.rng.random() < self.alias_p:
                out[self.rng.choice(group[0])] = v
            else:
                out[k] = v
        return out

    def network(self, m, decl, eff):
        sp = []
        for s in m.species:
            e = {"label": s["label"]}
            if "D" in s:
                e["D"] = self.perenv(s["D"], DIM["D"], "species", eff)
            if "density" in s:
                e["density"] = self.perenv(s["density"], DIM["density"], "species", eff)
            if "chstt" in s:
                e["chstt"] = copy.deepcopy(s["chstt"])
            self.units_key(e, "species", decl)
            sp.append(self.rename("species", e))
        re = []
        for r in m.reactions:
            e = {"stoichiometry": m.side(r["sub"]) + " -> " + m.side(r["prod"])}
            if "label" in r:
                e["label"] = r["label"]
            if "kf" in r:
                e["k+"] = self.perenv(r["kf"], kdim(sum(r["sub"].values())), "reaction", eff)
            if "kr" in r:
                e["k-"] = self.perenv(r["kr"], kdim(sum(r["prod"].values())), "reaction", eff)
            self.units_key(e, "reaction", decl)
            re.append(self.rename("reaction", e))
        d = {"species": sp, "reactions": re, "environments": list(m.envs)}
        self.units_key(d, "network", decl)
        return self.rename("network", d)

    def space(self, m, decl, eff):
        g = m.space
        if g["type"] == "grid":
            d = {"type": "grid", "w": g["w"], "h": g["h"], "d": g["d"], "cell_env": list(g["cell_env"]),
                 "cell_volume": self.num(Fr(g["hh"]) ** 3, DIM["volume"], "space", eff),
                 "boundary_conditions": {a: ("periodical" if b else "reflecting") for a, b in zip("xyz", g["bc"])}}
            self.units_key(d, "space", decl)
            return self.rename("grid", d)
        nodes, edges = [], []
        for n in g["nodes"]:
            e = {"volume": self.num(Fr(n["hh"]) ** 3, DIM["volume"], "node", eff), "environment": n["env"]}
            self.units_key(e, "node", decl)
            nodes.append(self.rename("node", e))
        for ed in g["edges"]:
            e = {"nodes": [ed["i"], ed["j"]], "surface": self.num(ed["sfc"], DIM["surface"], "edge", eff),
                 "distance": self.num(ed["dst"], DIM["distance"], "edge", eff)}
            self.units_key(e, "edge", decl)
            edges.append(self.rename("edge", e))
        d = {"type": "graph", "nodes": nodes, "edges": edges}
        self.units_key(d, "space", decl)
        return self.rename("graph", d)

    def system(self, m, decl, eff, state_form="dict"):
        d = {"network": self.network(m, decl, eff), "space": self.space(m, decl, eff)}
        if m.state is not None:
            flat = [Fr(v) for row in m.state for v in row]
            if state_form == "dict":
                x = self.rng.choice(list(self.systems.values()))
                f = UO.conv(self.sc, D, x, DIM["amount"])
                d["state"] = {"value": [float(v * f) for v in flat], "units": x[2]}
            else:       # bare array: read in the system's effective units
                f = UO.conv(self.sc, D, self.systems[eff["system"]], DIM["amount"])
                d["state"] = [float(v * f) for v in flat]
        if m.chem is not None:
            d["chemostats"] = [int(v) for row in m.chem for v in row]
        self.units_key(d, "system", decl)
        return self.rename("system", d)

    def script(self, m, decl, eff, times):
        """times: dict(dt, ts, tmax, interval) as Fractions (seconds)"""
        d = {"system": self.system(m, decl, eff), "t_sample": [self.num(t, DIM["time"], "script", eff, False) for t in times["ts"]],
             "time_step": self.num(times["dt"], DIM["time"], "script", eff),
             "sampling_policy": times.get("policy", "on_t_sample"),
             "sampling_interval": self.num(times["interval"], DIM["time"], "script", eff), "rng_seed": times.get("seed", 7)}
        if "tmax" in times:
            d["t_max"] = self.num(times["tmax"], DIM["time"], "script", eff)
        if self.explicit_p > 0 and self.rng.random() < 0.25:
            # the whole list as one unit-array {"value": [...], "units": u} in any time unit (the default t_max follows it)
            x = self.rng.choice(list(self.systems.values()))
            f = UO.conv(self.sc, D, x, DIM["time"])
            d["t_sample"] = {"value": [float(Fr(t) * f) for t in times["ts"]], "units": x[1]}
        self.units_key(d, "script", decl)
        return self.rename("script", d)


# ------------------------------------------------------------------------------------------------
# physical content of loaded objects, in the default units

US0 = UnitsSystem()


def _q(v, zero_units):
    """a quantity (UnitValue) -> float in default units"""
    return float(v.convert(US0).value)


def phys_network(net):
    envs = list(net.environments)
    out = {"environments": envs, "species": [], "reactions": []}
    for s in net.species:
        e = {"label": s.label, "D": {}, "density": {}, "chstt": {}}
        for env in envs:
            e["D"][env] = _q(valproc.get_value_in_env(s.D, env, strengths.UnitValue(0, "µm2/s")), None)
            e["density"][env] = _q(valproc.get_value_in_env(s.density, env, strengths.UnitValue(0, "molecule/µm3")), None)
            e["chstt"][env] = bool(valproc.get_value_in_env(s.chstt, env, False))
        out["species"].append(e)
    for r in net.reactions:
        e = {"label": r.label, "sub": {k: v for k, v in r.substrates.items() if v != 0}, "prod": {k: v for k, v in r.products.items() if v != 0},
             "kf": {}, "kr": {}}
        for env in envs:
            zf = strengths.UnitValue(0, strengths.Units(US0, r.kf_units_dimensions()))
            zr = strengths.UnitValue(0, strengths.Units(US0, r.kr_units_dimensions()))
            e["kf"][env] = _q(valproc.get_value_in_env(r.kf, env, zf), None)
            e["kr"][env] = _q(valproc.get_value_in_env(r.kr, env, zr), None)
        out["reactions"].append(e)
    return out


def phys_space(sp):
    if type(sp).__name__ == "RDGridSpace":
        return {"type": "grid", "w": sp.w, "h": sp.h, "d": sp.d, "cell_env": [int(v) for v in sp.cell_env],
                "cell_vol": _q(sp.cell_vol, None), "bc": sp.get_boundary_conditions()}
    return {"type": "graph", "nodes": [{"vol": _q(n.volume, None), "env": int(n.environment)} for n in sp.nodes],
            "edges": [{"i": e.i, "j": e.j, "sfc": _q(e.surface, None), "dst": _q(e.distance, None)} for e in sp.edges]}


def phys_system(system):
    return {"network": phys_network(system.network), "space": phys_space(system.space),
            "state": [float(v) for v in system.state.convert(US0).value], "chemostats": [int(v) for v in system.chemostats]}


def phys_script(script):
    return {"system": phys_system(script.system), "t_sample": [float(v) for v in script.t_sample.convert(US0).value],
            "time_step": _q(script.time_step, None), "t_max": _q(script.t_max, None),
            "sampling_policy": script.sampling_policy, "sampling_interval": _q(script.sampling_interval, None),
            "rng_seed": int(script.rng_seed), "init_state_processing": script.init_state_processing}


def phys_of_model(m):
    """expected physical content of a Model (exact Fractions -> floats)"""
    envs = list(m.envs)
    out = {"environments": envs, "species": [], "reactions": []}
    for s in m.species:
        out["species"].append({"label": s["label"],
                               "D": {e: float(m.in_env(s.get("D", Fr(0)), e, Fr(0))) for e in envs},
                               "density": {e: float(m.in_env(s.get("density", Fr(0)), e, Fr(0))) for e in envs},
                               "chstt": {e: bool(m.in_env(s.get("chstt", False), e, False)) for e in envs}})
    for r in m.reactions:
        out["reactions"].append({"label": r.get("label"), "sub": {k: v for k, v in r["sub"].items() if v}, "prod": {k: v for k, v in r["prod"].items() if v},
                                 "kf": {e: float(m.in_env(r.get("kf", Fr(0)), e, Fr(0))) for e in envs},
                                 "kr": {e: float(m.in_env(r.get("kr", Fr(0)), e, Fr(0))) for e in envs}})
    g = m.space
    if g["type"] == "grid":
        sp = {"type": "grid", "w": g["w"], "h": g["h"], "d": g["d"], "cell_env": list(g["cell_env"]), "cell_vol": float(g["hh"] ** 3),
              "bc": {a: ("periodical" if b else "reflecting") for a, b in zip("xyz", g["bc"])}}
    else:
        sp = {"type": "graph", "nodes": [{"vol": float(n["hh"] ** 3), "env": n["env"]} for n in g["nodes"]],
              "edges": [{"i": e["i"], "j": e["j"], "sfc": float(e["sfc"]), "dst": float(e["dst"])} for e in g["edges"]]}
    nC = m.ncells()
    if m.state is not None:
        state = [float(v) for row in m.state for v in row]
    else:
        ce, hh = m.cell_env(), m.cell_h()
        state = [float(m.in_env(s.get("density", Fr(0)), envs[ce[i]], Fr(0)) * Fr(hh[i]) ** 3) for s in m.species for i in range(nC)]
    chem = [int(v) for row in m.chem_map() for v in row]
    return {"network": out, "space": sp, "state": state, "chemostats": chem}


def diff(a, b, path="", rtol=1e-9):
    """first difference between two nested structures (floats compared with rtol), or None"""
    if isinstance(a, dict) and isinstance(b, dict):
        if set(a) != set(b):
            return path + ": keys %s vs %s" % (sorted(map(str, a)), sorted(map(str, b)))
        for k in a:
            d = diff(a[k], b[k], path + "/" + str(k), rtol)
            if d:
                return d
        return None
    if isinstance(a, (list, tuple)) and isinstance(b, (list, tuple)):
        if len(a) != len(b):
            return path + ": length %d vs %d" % (len(a), len(b))
        for i, (x, y) in enumerate(zip(a, b)):
            d = diff(x, y, path + "[%d]" % i, rtol)
            if d:
                return d
        return None
    if isinstance(a, bool) or isinstance(b, bool) or a is None or b is None or isinstance(a, str) or isinstance(b, str):
        return None if a == b else path + ": %r vs %r" % (a, b)
    if isinstance(a, (int, float)) and isinstance(b, (int, float)):
        if a == b or abs(a - b) <= rtol * max(abs(a), abs(b)):
            return None
        return path + ": %r vs %r" % (a, b)
    return None if a == b else path + ": %r vs %r" % (a, b)


def random_phys_model(rng, **kw):
    """rd_model with densities and reaction labels added (default state from densities half of the time)"""
    m = rd_model.random_model(rng, **kw)
    for s in m.species:
        if rng.random() < 0.7:
            s["density"] = rd_model.per_env(rng, m.envs, [Fr(0), Fr(1), Fr(3, 2), Fr(5)])
    for i, r in enumerate(m.reactions):
        if rng.random() < 0.5:
            r["label"] = "r%d" % i
    if rng.random() < 0.5:
        m.state = None
    if m.state is None:
        m.chem = None
    return m
