"""Exact values exported by TLC from SIMonomial.tla, and monomial -> Fraction conversion."""
import json
import os
from fractions import Fraction as Fr

from .vlib import tlc, util
from .vlib.report import MachineryError

NA = Fr(602214076) * Fr(10) ** 15     # exact: 6.02214076e23


def mono(m):
    return Fr(m["num"], m["den"]) * Fr(10) ** m["p10"] * Fr(6) ** m["p6"] * NA ** m["pNA"]


_cache = {}


def scales(rep=None):
    """{'space': {unit: Fraction}, ..., 'pairs': {kind: {(src,dst): {exp: Fraction}}}} from TLC."""
    if "scales" in _cache:
        return _cache["scales"]
    out = os.path.join(util.subdir("eval"), "scales.json")
    r = tlc.run("Eval_Units", workers=1, env={"OUT_FILE": out, "MODE": "scales"}, timeout=300)
    if rep is not None:
        rep.add_tlc("Eval_Units[scales]", r, note="operator evaluation (ASSUME), no state graph")
    if "EVAL-DONE" not in r.out:
        raise MachineryError("TLC could not export the scale tables: %s\n%s" % (r.error, r.tail(20)))
    d = json.load(open(out))
    res = {"pairs": {}}
    for kind in ("space", "time", "quantity", "volume", "density"):
        res[kind] = {e["u"]: mono(e["m"]) for e in d[kind]}
    for kind in ("space", "time", "quantity"):
        tab = {}
        for p in d[kind + "Pairs"]:
            tab[(p["src"], p["dst"])] = {ex - 4: mono(p["f"][ex]) for ex in range(9)}
        res["pairs"][kind] = tab
    _cache["scales"] = res
    return res


def conv(sc, src, dst, dim):
    """Exact conversion factor between two unit systems (tuples space,time,quantity) for a dimension triple:
    the product of the three per-kind factors TLC exported (MC_Conv.Factorises)."""
    f = Fr(1)
    for kind, s, d, e in zip(("space", "time", "quantity"), src, dst, dim):
        if -4 <= e <= 4:
            f *= sc["pairs"][kind][(s, d)][e]
        else:
            f *= sc["pairs"][kind][(s, d)][1] ** e
    return f


def sys_scale(sc, sys, dim):
    return sc["space"][sys[0]] ** dim[0] * sc["time"][sys[1]] ** dim[1] * sc["quantity"][sys[2]] ** dim[2]
