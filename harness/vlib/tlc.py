"""Run TLC (always under a timeout, in a scratch copy of specs/) and parse what it says."""
import os
import re
import shutil
import subprocess
import time

from . import util

JAR = "/opt/veriftools/tla/tla2tools.jar"
CM = "/opt/veriftools/tla/CommunityModules-deps.jar"

_workdir = None


def workdir():
    """Scratch copy of specs/ (TLC drops files next to the spec)."""
    global _workdir
    if _workdir is None:
        _workdir = util.subdir("specs")
        for f in os.listdir(util.SPECS):
            if f.endswith((".tla", ".cfg")):
                shutil.copy(os.path.join(util.SPECS, f), _workdir)
    return _workdir


class TLCResult:
    def __init__(self, out, rc, wall):
        self.out = out
        self.rc = rc
        self.wall = wall
        self.generated = 0
        self.distinct = 0
        self.depth = 0
        self.violated = None      # name of violated invariant / property, if any
        self.error = None         # first "Error:" line
        self.timeout = False
        m = None
        for m in re.finditer(r"(\d+) states generated, (\d+) distinct states found", out):
            pass
        if m:
            self.generated, self.distinct = int(m.group(1)), int(m.group(2))
        m = re.search(r"The number of states generated: (\d+)", out)
        if m and not self.generated:
            self.generated = int(m.group(1))
            self.distinct = self.generated
        m = re.search(r"depth of the complete state graph search is (\d+)", out)
        if m:
            self.depth = int(m.group(1))
        m = re.search(r"^Error: (.*)$", out, re.M)
        if m:
            self.error = m.group(1)
        m = re.search(r"Invariant (\S+) is violated", out)
        if m:
            self.violated = m.group(1)
        m = re.search(r"Action property (\S+) is violated", out)
        if m:
            self.violated = m.group(1)
        m = re.search(r"Temporal property (\S+) was violated", out)
        if m:
            self.violated = self.violated or m.group(1)
        if "Temporal properties were violated" in out:
            self.violated = self.violated or "temporal"
        self.finished = ("Model checking completed" in out) or ("Finished in" in out)
        self.no_error = "No error has been found" in out or (
            self.finished and self.error is None)

    @property
    def ok(self):
        return self.finished and self.error is None and not self.timeout

    def printed(self):
        """Values printed by PrintT / Print, one per line (TLC prints them raw)."""
        return [l for l in self.out.splitlines()]

    def tail(self, n=40):
        return "\n".join(self.out.splitlines()[-n:])

    def coverage(self):
        """action name -> (distinct, total) from '-coverage' output lines
        '<Name line .. of module M>: 12:345'."""
        cov = {}
        for m in re.finditer(r"^<(\w+) line \d+, col \d+ to line \d+, col \d+ of module (\w+)>(?: \(\d+ \d+ \d+ \d+\))?: (\d+):(\d+)", self.out, re.M):
            name = m.group(1)
            d, t = int(m.group(3)), int(m.group(4))
            old = cov.get(name, (0, 0))
            cov[name] = (max(old[0], d), max(old[1], t))
        return cov


def run(module, cfg=None, workers=None, simulate=None, depth=None, seed=None, env=None,
        timeout=1800, extra=(), deadlock=False, coverage=False, heap="4g", deque=False, wd=None):
    """Run TLC on specs/<module>.tla with specs/<cfg>.cfg.

    simulate: None or dict(num=N[, file=path]).
    deadlock: True -> check for deadlock (default off: most specs here are generators /
              bounded machines whose terminal states are intended).
    """
    wd = wd or workdir()
    cfg = cfg or module
    meta = util.subdir("meta/%s_%d_%d" % (cfg, os.getpid(), int(time.time() * 1000) % 10 ** 9))
    jopts = ["-Djava.io.tmpdir=" + util.subdir("jtmp"), "-Dfile.encoding=UTF-8", "-Dstdout.encoding=UTF-8",
             "-Dsun.stdout.encoding=UTF-8", "-Dsun.jnu.encoding=UTF-8"]
    if deque:
        jopts.append("-Dtlc2.tool.queue.IStateQueue=StateDeque")
    cmd = ["java", "-XX:+UseParallelGC", "-Xmx" + heap, "-Xss16m"] + jopts + [
        "-cp", JAR + ":" + CM, "tlc2.TLC",
        "-metadir", meta, "-noGenerateSpecTE", "-config", cfg + ".cfg"]
    if workers is None:
        workers = util.NCPU
    cmd += ["-workers", str(workers)]
    if not deadlock:
        cmd += ["-deadlock"]
    if coverage:
        cmd += ["-coverage", "1"]
    if simulate is not None:
        s = "num=%d" % simulate.get("num", 100)
        if simulate.get("file"):
            s = "file=%s,%s" % (simulate["file"], s)
        cmd += ["-simulate", s]
    if depth is not None:
        cmd += ["-depth", str(depth)]
    if seed is not None:
        cmd += ["-seed", str(seed)]
    cmd += list(extra)
    cmd += [module + ".tla"]
    e = dict(os.environ)
    e.pop("JAVA_TOOL_OPTIONS", None)
    if env:
        e.update({k: str(v) for k, v in env.items()})
    t0 = time.time()
    try:
        p = subprocess.run(cmd, cwd=wd, capture_output=True, text=True, timeout=timeout, env=e)
        res = TLCResult(p.stdout + p.stderr, p.returncode, time.time() - t0)
    except subprocess.TimeoutExpired as ex:
        out = (ex.stdout or b"").decode("utf8", "replace") if isinstance(ex.stdout, bytes) else (ex.stdout or "")
        res = TLCResult(out, -9, time.time() - t0)
        res.timeout = True
        subprocess.run(["pkill", "-f", meta], capture_output=True)
    shutil.rmtree(meta, ignore_errors=True)
    return res


def sany(module):
    wd = workdir()
    p = subprocess.run(["java", "-Djava.io.tmpdir=" + util.subdir("jtmp"), "-cp", JAR + ":" + CM, "tla2sany.SANY", module + ".tla"],
                       cwd=wd, capture_output=True, text=True, timeout=120)
    ok = p.returncode == 0 and "Semantic errors" not in p.stdout and "***Parse Error***" not in p.stdout \
        and "Fatal" not in p.stdout and "Could not find module" not in p.stdout
    return ok, p.stdout + p.stderr


def write_cfg(name, text):
    """Write a generated configuration into the scratch copy of specs/."""
    with open(os.path.join(workdir(), name + ".cfg"), "w") as f:
        f.write(text)
    return name


def write_module(name, text):
    with open(os.path.join(workdir(), name + ".tla"), "w") as f:
        f.write(text)
    return name


def mutant_dir(name, module, replacements):
    """A copy of the spec directory in which `module` has been textually mutated
    (used to show that an invariant is not vacuous: the mutated mechanism must violate it)."""
    src = workdir()
    d = util.subdir("specmut_" + name)
    for f in os.listdir(src):
        if f.endswith((".tla", ".cfg")):
            shutil.copy(os.path.join(src, f), d)
    p = os.path.join(d, module + ".tla")
    text = open(p).read()
    for old, new in replacements:
        if text.count(old) != 1:
            raise ValueError("spec mutant %s: pattern %r occurs %d times" % (name, old, text.count(old)))
        text = text.replace(old, new)
    open(p, "w").write(text)
    return d


def stream(module, cfg, want, env=None, workers=4, simulate_depth=6, seed=0, timeout=120, heap="4g", prefix='<<"PROGRAM"'):
    """Run TLC in simulation mode and collect printed lines starting with `prefix` until `want`
    distinct ones have been seen (or the time is up); then stop TLC. Returns (lines, stats)."""
    import select
    wd = workdir()
    meta = util.subdir("meta/stream_%s_%d_%d" % (cfg, os.getpid(), int(time.time() * 1000) % 10 ** 9))
    cmd = ["java", "-XX:+UseParallelGC", "-Xmx" + heap, "-Xss16m", "-Djava.io.tmpdir=" + util.subdir("jtmp"),
           "-Dfile.encoding=UTF-8", "-Dstdout.encoding=UTF-8", "-cp", JAR + ":" + CM, "tlc2.TLC", "-metadir", meta,
           "-noGenerateSpecTE", "-config", cfg + ".cfg", "-workers", str(workers), "-deadlock",
           "-simulate", "num=1000000000", "-depth", str(simulate_depth), "-seed", str(seed), module + ".tla"]
    e = dict(os.environ)
    e.pop("JAVA_TOOL_OPTIONS", None)
    if env:
        e.update({k: str(v) for k, v in env.items()})
    p = subprocess.Popen(cmd, cwd=wd, stdout=subprocess.PIPE, stderr=subprocess.STDOUT, env=e)
    seen, other = set(), []
    t0 = time.time()
    buf = b""
    err = None
    try:
        while len(seen) < want and time.time() - t0 < timeout:
            rl, _, _ = select.select([p.stdout], [], [], 1.0)
            if not rl:
                if p.poll() is not None:
                    break
                continue
            chunk = os.read(p.stdout.fileno(), 1 << 16)
            if not chunk:
                break
            buf += chunk
            *lines, buf = buf.split(b"\n")
            for l in lines:
                l = l.decode("utf8", "replace")
                if l.startswith(prefix):
                    seen.add(l)
                else:
                    other.append(l)
                    if l.startswith("Error:") and err is None:
                        err = l
    finally:
        p.kill()
        p.wait()
        shutil.rmtree(meta, ignore_errors=True)
    return sorted(seen), {"wall": time.time() - t0, "error": err, "other_tail": other[-30:]}


def unquote_tla_json(line, prefix='<<"PROGRAM", "'):
    """<<"PROGRAM", "{\\"a\\":1}">>  ->  the JSON text"""
    body = line[len(prefix):]
    if body.endswith('">>'):
        body = body[:-3]
    return body.replace('\\"', '"').replace('\\\\', '\\')
