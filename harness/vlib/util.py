"""Shared plumbing: paths, scratch directory, seeds, parallel map."""
import atexit
import os
import shutil
import sys
import tempfile
import time

VERIF = os.path.dirname(os.path.dirname(os.path.dirname(os.path.abspath(__file__))))
REPO = os.environ.get("VERIF_REPO_ROOT", "/repo")
SPECS = os.path.join(VERIF, "specs")
# VERIF_OUT_DIR: where evidence and replay files go (tools/try_seed.sh points it at a scratch directory, so that runs
# against a deliberately broken tree never overwrite the evidence of the real one)
_OUT = os.environ.get("VERIF_OUT_DIR") or VERIF
EVIDENCE = os.path.join(_OUT, "evidence")
REPLAYS = os.path.join(_OUT, "replays")
ENGINE_SRC = os.path.join(REPO, "src/strengths/engines/strengths_engine/src")
NCPU = os.cpu_count() or 4

_scratch = None
_owner_pid = None


def scratch():
    """A per-run scratch directory outside /repo and /verif, removed at exit."""
    global _scratch, _owner_pid
    if _scratch is None:
        base = os.environ.get("VERIF_SCRATCH_BASE") or tempfile.gettempdir()
        _scratch = tempfile.mkdtemp(prefix="strengths-verif-", dir=base)
        _owner_pid = os.getpid()
        atexit.register(_cleanup)
    return _scratch


def _cleanup():
    if _scratch and os.getpid() == _owner_pid:
        shutil.rmtree(_scratch, ignore_errors=True)


def repo_tree_id():
    """Which tree the run looked at: HEAD of the repository under test and whether tracked files differ from it
    (evidence of a run against a deliberately modified tree says so)."""
    import subprocess
    try:
        head = subprocess.run(["git", "-C", REPO, "rev-parse", "--short", "HEAD"], capture_output=True, text=True, timeout=20).stdout.strip()
        dirty = subprocess.run(["git", "-C", REPO, "status", "--porcelain", "--untracked-files=no"], capture_output=True, text=True,
                               timeout=20).stdout.strip().splitlines()
        return {"root": REPO, "head": head, "tracked_files_modified": len(dirty)}
    except Exception as e:  # noqa
        return {"root": REPO, "error": repr(e)[:100]}


def subdir(name):
    p = os.path.join(scratch(), name)
    os.makedirs(p, exist_ok=True)
    return p


def seed():
    try:
        return int(os.environ.get("VERIF_SEED", "0"))
    except ValueError:
        return 0


def log(*a):
    print(*a, file=sys.stderr, flush=True)


class Timer:
    def __init__(self):
        self.t0 = time.time()

    def s(self):
        return round(time.time() - self.t0, 3)


def ensure_repo_importable():
    """strengths is installed editable in /venv from /repo/src; make it robust anyway."""
    p = os.path.join(REPO, "src")
    if p not in sys.path:
        sys.path.insert(0, p)
