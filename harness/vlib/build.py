"""Compile the native engine from /repo's *working tree* into the scratch directory.

The .so shipped in the package directory is an untracked build artefact and is never used.
"""
import ctypes
import os
import subprocess

from . import util

FLAVOURS = {
    "plain": ["g++", "-std=c++11", "-O2", "-shared", "-fPIC"],
    "probe": ["g++", "-std=c++11", "-O2", "-shared", "-fPIC", "-DSTRENGTHS_VERIF"],
    "vg": ["g++", "-std=c++11", "-O1", "-g", "-shared", "-fPIC"],          # for valgrind memcheck (line numbers, little inlining)
    "san": ["clang++", "-std=c++11", "-O1", "-g", "-fno-omit-frame-pointer",
            "-fsanitize=address,undefined", "-fno-sanitize-recover=undefined",
            "-shared-libasan", "-shared", "-fPIC"],
    "sanassert": ["clang++", "-std=c++11", "-O1", "-g", "-fno-omit-frame-pointer",
                  "-fsanitize=address,undefined", "-fno-sanitize-recover=undefined",
                  "-shared-libasan", "-D_GLIBCXX_ASSERTIONS", "-shared", "-fPIC"],
}

_built = {}


class BuildError(Exception):
    pass


def build_engine(flavour="plain"):
    if flavour in _built:
        return _built[flavour]
    out = os.path.join(util.subdir("build"), "engine_%s.so" % flavour)
    src = os.path.join(util.ENGINE_SRC, "engine.cpp")
    cmd = FLAVOURS[flavour] + ["-o", out, src]
    r = subprocess.run(cmd, capture_output=True, text=True, timeout=600)
    if r.returncode != 0:
        raise BuildError("engine build (%s) failed:\n%s" % (flavour, r.stderr[-4000:]))
    _built[flavour] = out
    return out


def asan_runtime():
    r = subprocess.run(["clang", "-print-file-name=libclang_rt.asan-x86_64.so"],
                       capture_output=True, text=True)
    return r.stdout.strip()


def load(flavour="plain"):
    return ctypes.CDLL(build_engine(flavour))


KINDS = {
    "euler": dict(option="euler", requires_molecules=False),
    "tauleap": dict(option="tauleap", requires_molecules=True),
    "gillespie": dict(option="gillespie", requires_molecules=True),
}


def make_engine_via_collection(kind, flavour="plain"):
    """The package's own factories (engine_collection.euler_engine() ...), pointed at the freshly built library instead of the
    shipped binary: what a user gets, option names, flags and object identity included."""
    util.ensure_repo_importable()
    from strengths import engine_collection
    path = build_engine(flavour)
    saved = engine_collection._get_engine_path
    engine_collection._get_engine_path = lambda: path
    try:
        return getattr(engine_collection, kind + "_engine")()
    finally:
        engine_collection._get_engine_path = saved


def make_engine(kind, flavour="plain", lib=None):
    """Same construction as engine_collection.*_engine(), but on the freshly built library."""
    util.ensure_repo_importable()
    from strengths.librdengine import LibRDEngine
    if lib is None:
        lib = load(flavour)
    k = KINDS[kind]
    return LibRDEngine(lib, option=k["option"], description="description",
                       requires_molecules=k["requires_molecules"])
