"""Run Apalache (symbolic model checker) on the small integer-only modules whose obligations are unbounded.

Apalache is used next to TLC, never instead of it: TLC explores the implementation-shaped modules for small constants,
Apalache discharges, for ALL sizes, the few arithmetic obligations that are plain integer formulas (inductive-invariant
style: Init => Inv at length 0, Inv /\\ Next => Inv' at length 1)."""
import os
import re
import shutil
import subprocess
import time

from . import util


class ApaResult:
    def __init__(self, out, rc, wall, timeout=False):
        self.out, self.rc, self.wall, self.timeout = out, rc, wall, timeout
        self.ok = (rc == 0 and "The outcome is: NoError" in out)
        self.violated = ("The outcome is: Error" in out) and ("violat" in out.lower() or "counterexample" in out.lower() or rc == 12)

    def tail(self, n=20):
        return "\n".join(self.out.splitlines()[-n:])


def available():
    return shutil.which("apalache-mc") is not None


def check(module, init, inv, length, edits=None, timeout=300):
    """edits: list of (old, new) applied to a scratch copy of the module (spec mutants)."""
    wd = util.subdir("apalache_%s_%s_%s_%d" % (module, init, inv, int(time.time() * 1000) % 100000))
    src = open(os.path.join(util.SPECS, module + ".tla")).read()
    for old, new in edits or []:
        if src.count(old) != 1:
            raise RuntimeError("apalache mutant: %r occurs %d times in %s" % (old, src.count(old), module))
        src = src.replace(old, new)
    with open(os.path.join(wd, module + ".tla"), "w") as f:
        f.write(src)
    cmd = ["timeout", "-k", "5", str(timeout), "apalache-mc", "check", "--init=" + init, "--inv=" + inv, "--length=%d" % length,
           "--out-dir=" + os.path.join(wd, "out"), module + ".tla"]
    t0 = time.time()
    env = dict(os.environ, JVM_ARGS="-Xmx4g -Djava.io.tmpdir=" + wd)
    p = subprocess.run(cmd, cwd=wd, capture_output=True, text=True, env=env)
    out = p.stdout + p.stderr
    shutil.rmtree(os.path.join(wd, "out"), ignore_errors=True)
    return ApaResult(out, p.returncode, time.time() - t0, timeout=(p.returncode in (124, 137)))


def obligations(rep, module, obls, mutants):
    """obls: [(name, init, inv, length)] must all hold; mutants: [(name, edits, init, inv, length)] must all be refuted.
    Raises MachineryError through the caller's handling when Apalache cannot decide (timeout / tool error)."""
    from .report import MachineryError
    if not available():
        raise MachineryError("apalache-mc is not on PATH")
    done = []
    for name, init, inv, length in obls:
        r = check(module, init, inv, length)
        if r.ok:
            done.append({"obligation": name, "init": init, "inv": inv, "length": length, "wall_s": round(r.wall, 1), "outcome": "NoError"})
        elif r.violated:
            rep.violation("model", "model:apalache:%s:%s" % (module, inv), {"obligation": name, "apalache": r.tail(40)})
            done.append({"obligation": name, "outcome": "Error"})
        else:
            raise MachineryError("apalache could not decide %s/%s: rc=%s\n%s" % (module, name, r.rc, r.tail(15)))
    for name, edits, init, inv, length in mutants:
        r = check(module, init, inv, length, edits=edits)
        rep.selftest("apalache spec-mutant %s: %s must be refuted" % (module, name), bool(r.violated and not r.ok), "rc=%s" % r.rc)
    rep.extra.setdefault("apalache", []).append({"module": module, "obligations": done, "mutants_refuted": len(mutants),
                                                 "bounds": "none: all integer sizes (symbolic)"})
