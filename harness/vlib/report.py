"""Per-run result accumulator: evidence file, replay files, known findings, exit code."""
import hashlib
import json
import os
import sys

from . import util

KF_PATH = os.path.join(util.VERIF, "known_findings.json")


def load_known():
    try:
        with open(KF_PATH) as f:
            return json.load(f).get("findings", [])
    except FileNotFoundError:
        return []


class MachineryError(Exception):
    """The check itself could not run (build failed, TLC crashed, self-test did not reject)."""


class Report:
    def __init__(self, prop, tier, level="model_checking"):
        self.prop = prop
        self.tier = tier
        self.level = level
        self.timer = util.Timer()
        self.states = 0
        self.transitions = 0
        self.traces = 0
        self.evaluations = 0
        self._distinct = set()
        self.samples = []
        self.rule = ""
        self.assumptions = []
        self.violations = []      # dicts
        self.known_hits = {}      # finding id -> count
        self.extra = {}
        self.tlc_runs = []
        self.exhaustive = False
        self.selftests = []
        import shutil
        shutil.rmtree(os.path.join(util.REPLAYS, prop), ignore_errors=True)
        self.known = [k for k in load_known() if k.get("property") == prop or prop in k.get("also", [])]

    # ---- accounting -------------------------------------------------------------------
    def add_tlc(self, name, res, note=None):
        self.states += res.distinct
        self.transitions += res.generated
        for d in self.tlc_runs:
            if d["config"] == name:          # shards of one logical run
                d["distinct"] += res.distinct
                d["generated"] += res.generated
                d["depth"] = max(d["depth"], res.depth)
                d["wall_s"] = round(max(d["wall_s"], res.wall), 2)
                d["jvms"] = d.get("jvms", 1) + 1
                return
        d = {"config": name, "distinct": res.distinct, "generated": res.generated,
             "depth": res.depth, "wall_s": round(res.wall, 2)}
        if note:
            d["note"] = note
        self.tlc_runs.append(d)

    def case(self, key, nontrivial=True):
        """Count one evaluation; key identifies the case for distinctness."""
        self.evaluations += 1
        if nontrivial:
            if not isinstance(key, str):
                key = json.dumps(key, sort_keys=True, default=str)
            self._distinct.add(hashlib.blake2b(key.encode(), digest_size=8).digest())

    def sample(self, s, limit=4):
        if len(self.samples) < limit:
            self.samples.append(s)

    def guard(self, check, detail=None):
        """Context manager: an exception raised while a case is being replayed / compared is a verdict about that case
        (the implementation returned something the comparison cannot even digest), not a failure of the machinery."""
        rep = self

        class _G:
            def __enter__(self_g):
                return self_g

            def __exit__(self_g, et, ev, tb):
                if et is None or not issubclass(et, Exception) or issubclass(et, MachineryError):
                    return False
                import traceback
                where = traceback.extract_tb(tb)[-1]
                rep.violation(check, "exception-while-checking:%s:%s" % (check, et.__name__),
                              {"exception": repr(ev)[:300], "at": "%s:%d" % (where.filename.split("/")[-1], where.lineno), "case": detail})
                return True
        return _G()

    def selftest(self, name, rejected, detail=""):
        self.selftests.append({"name": name, "rejected": bool(rejected), "detail": detail})
        if not rejected:
            raise MachineryError("self-test '%s' was not rejected: %s" % (name, detail))

    # ---- verdicts ---------------------------------------------------------------------
    def violation(self, check, signature, detail, replay=None):
        """Record a violation. `signature` is a short normalised string describing the failing
        input class / call site / history shape; it is matched against known_findings.json."""
        for k in self.known:
            if k.get("status") == "known" and _sig_match(k.get("signature"), signature):
                self.known_hits.setdefault(k["id"], {"n": 0, "what": k.get("what", ""), "example": detail})
                self.known_hits[k["id"]]["n"] += 1
                return False
        v = {"check": check, "signature": signature, "detail": detail}
        if replay is not None:
            v["replay"] = replay
        self.violations.append(v)
        return True

    def finish(self):
        os.makedirs(util.EVIDENCE, exist_ok=True)
        for fid, h in sorted(self.known_hits.items()):
            print("KNOWN-FINDING: property=%s %s %s (matched %d case(s))" % (self.prop, fid, h["what"], h["n"]))
        paths = []
        if self.violations:
            d = os.path.join(util.REPLAYS, self.prop)
            os.makedirs(d, exist_ok=True)
            seen = set()
            firsts, sigs = [], set()
            for v in self.violations:
                if v["signature"] not in sigs:
                    sigs.add(v["signature"])
                    firsts.append(v)
            for v in (firsts + self.violations[:20])[:60]:
                body = json.dumps({"property": self.prop, "tier": self.tier, "seed": util.seed(), **v},
                                  indent=1, sort_keys=True, default=str)
                h = hashlib.blake2b(body.encode(), digest_size=6).hexdigest()
                p = os.path.join(d, h + ".json")
                with open(p, "w") as f:
                    f.write(body)
                if v["signature"] not in seen:
                    seen.add(v["signature"])
                    paths.append((v, p))
        cov = {
            "states": self.states, "transitions": self.transitions,
            "traces_validated_against_impl": self.traces,
            "evaluations": self.evaluations, "distinct_nontrivial": len(self._distinct),
            "rule": self.rule, "samples": self.samples, "exhaustive": self.exhaustive,
            "tlc_runs": self.tlc_runs, "selftests": self.selftests,
            "known_findings_matched": {k: v["n"] for k, v in self.known_hits.items()},
        }
        cov.update(self.extra)
        cov["tree_checked"] = util.repo_tree_id()
        ev = {
            "property_id": self.prop, "tier": self.tier, "seed": util.seed(), "level": self.level,
            "coverage": cov, "assumptions": self.assumptions, "wall_s": self.timer.s(),
            "violations": len(self.violations),
        }
        with open(os.path.join(util.EVIDENCE, self.prop + ".json"), "w") as f:
            json.dump(ev, f, indent=1, default=str)
        for v, p in paths:
            print("VIOLATION property=%s replay=%s" % (self.prop, p))
            print("  check=%s signature=%s" % (v["check"], v["signature"]))
            print("  " + json.dumps(v["detail"], default=str)[:1500])
        sys.stdout.flush()
        return 1 if self.violations else 0


def _sig_match(pattern, sig):
    if pattern is None:
        return False
    if pattern.endswith("*"):
        return sig.startswith(pattern[:-1])
    return pattern == sig
