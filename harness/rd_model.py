"""Random small reaction-diffusion models, described mathematically (exact rationals), and rendered
two ways: as a strengths dictionary (public API input) and as the configuration record of RDModel.tla.

The mathematical description is the harness's own data; nothing is read back from strengths objects,
so the specification's tables and the engine's tables are derived independently from the same model.
"""
import json
import random
from fractions import Fraction as Fr

LABELS = ["A", "B", "C", "E", "F"]


def fr(x):
    return [Fr(x).numerator, Fr(x).denominator]


class Model:
    """
    species:   list of dict(label, D={env: Fraction | 'default': ...} or Fraction, chstt={env: bool} or bool)
    reactions: list of dict(sub={label: n}, prod={label: n}, kf=..., kr=...)  (k: Fraction or {env/default: Fraction})
    envs:      list of str
    space:     dict(type='grid', w,h,d, bc=(bool,bool,bool), hh=int, cell_env=[...])
               or dict(type='graph', nodes=[dict(hh=int, env=int)], edges=[dict(i,j,sfc=Fraction,dst=Fraction)])
    state:     [species][cell] numbers (molecules)   chem: [species][cell] 0/1 or None (defaults from species)
    """

    def __init__(self, species, reactions, envs, space, state, chem=None):
        self.species, self.reactions, self.envs, self.space, self.state, self.chem = species, reactions, envs, space, state, chem

    # ---------------- derived, by the documented semantics ----------------
    def ncells(self):
        g = self.space
        return g["w"] * g["h"] * g["d"] if g["type"] == "grid" else len(g["nodes"])

    def cell_env(self):
        g = self.space
        return list(g["cell_env"]) if g["type"] == "grid" else [n["env"] for n in g["nodes"]]

    def cell_h(self):
        g = self.space
        return [g["hh"]] * self.ncells() if g["type"] == "grid" else [n["hh"] for n in g["nodes"]]

    @staticmethod
    def in_env(v, env, default):
        if isinstance(v, dict):
            if env in v:
                return v[env]
            if "default" in v:
                return v["default"]
            return default
        return v

    def chem_map(self):
        if self.chem is not None:
            return self.chem
        ce = self.cell_env()
        return [[int(bool(self.in_env(sp.get("chstt", False), self.envs[ce[i]], False))) for i in range(self.ncells())]
                for sp in self.species]

    def irreversible(self):
        out = []
        for r in self.reactions:
            out.append((r["sub"], r["prod"], r.get("kf", Fr(0))))
            out.append((r["prod"], r["sub"], r.get("kr", Fr(0))))
        return out

    # ---------------- RDModel.tla configuration ----------------
    def spec_cfg(self):
        labels = [s["label"] for s in self.species]
        irr = self.irreversible()
        nC, nS, nR = self.ncells(), len(labels), len(irr)
        sub = [[int(a.get(l, 0)) for l in labels] for a, b, k in irr]
        sto = [[int(b.get(l, 0)) - int(a.get(l, 0)) for l in labels] for a, b, k in irr]
        kk = [[fr(self.in_env(k, e, Fr(0))) for a, b, k in irr] for e in self.envs]
        DD = [[fr(self.in_env(s.get("D", Fr(0)), e, Fr(0))) for e in self.envs] for s in self.species]
        g = self.space
        if g["type"] == "grid":
            sp = {"type": "grid", "w": g["w"], "h": g["h"], "d": g["d"], "bc": [bool(b) for b in g["bc"]], "hh": g["hh"]}
        else:
            sp = {"type": "graph", "edges": [{"i": e["i"], "j": e["j"], "sfc": fr(e["sfc"]), "dst": fr(e["dst"])} for e in g["edges"]]}
        cm = self.chem_map()
        return {"nC": nC, "nS": nS, "nR": nR, "sub": sub, "sto": sto, "env": [e + 1 for e in self.cell_env()],
                "k": kk, "D": DD, "h": self.cell_h(), "space": sp,
                "chs": [[bool(cm[s][i]) for s in range(nS)] for i in range(nC)]}

    # ---------------- strengths dictionary ----------------
    @staticmethod
    def _num(v):
        if isinstance(v, dict):
            return {k: float(x) for k, x in v.items()}
        return float(v)

    eq_style = "coef"      # how a side is written: "2 A + B", "A + A + B" (repeats) or "A + B + 1 A" (split, any order)

    def side(self, d):
        """The same side of a reaction in one of the notations the documentation allows (repeated species are summed)."""
        if self.eq_style == "repeat":
            terms = [l for l, n in d.items() for _ in range(n)]
        elif self.eq_style == "split":
            first = [("%d %s" % (n - 1, l)) if n > 2 else l for l, n in d.items() if n >= 2]
            rest = [l if n == 1 else ("1 %s" % l) for l, n in d.items()]
            terms = rest[::-1] + first
        else:
            terms = [("%d %s" % (n, l)) if n != 1 else l for l, n in d.items()]
        return " + ".join(terms)

    def strengths_dict(self, explicit_state=True):
        sp = []
        for s in self.species:
            e = {"label": s["label"]}
            if "D" in s:
                e["D"] = self._num(s["D"])
            if "chstt" in s:
                e["chstt"] = s["chstt"]
            if "density" in s:
                e["density"] = self._num(s["density"])
            sp.append(e)
        re = []
        for r in self.reactions:
            e = {"eq": self.side(r["sub"]) + " -> " + self.side(r["prod"])}
            if "kf" in r:
                e["k+"] = self._num(r["kf"])
            if "kr" in r:
                e["k-"] = self._num(r["kr"])
            re.append(e)
        g = self.space
        if g["type"] == "grid":
            space = {"type": "grid", "w": g["w"], "h": g["h"], "d": g["d"], "cell_env": list(g["cell_env"]),
                     "cell_vol": float(g["hh"] ** 3),
                     "boundary_conditions": {a: ("periodical" if b else "reflecting") for a, b in zip("xyz", g["bc"])}}
        else:
            space = {"type": "graph",
                     "nodes": [{"volume": float(n["hh"] ** 3), "env": n["env"]} for n in g["nodes"]],
                     "edges": [{"nodes": [e["i"], e["j"]], "surface": float(e["sfc"]), "distance": float(e["dst"])} for e in g["edges"]]}
        d = {"network": {"species": sp, "reactions": re, "environments": list(self.envs)}, "space": space}
        if explicit_state and self.state is not None:
            flat = [float(v) for row in self.state for v in row]
            d["state"] = {"value": flat, "units": "molecule"}
        if self.chem is not None:
            d["chemostats"] = [int(v) for row in self.chem for v in row]
        return d

    def key(self):
        return json.dumps(self.spec_cfg(), sort_keys=True) + json.dumps(self.state, default=str)


# --------------------------------------------------------------------------------------------
KS = [Fr(0), Fr(1, 2), Fr(1), Fr(2), Fr(1, 4), Fr(3)]
DS = [Fr(0), Fr(1), Fr(1, 2), Fr(2)]


def per_env(rng, envs, pool, p_dict=0.5):
    if len(envs) > 1 and rng.random() < p_dict:
        d = {}
        for e in envs:
            if rng.random() < 0.6:
                d[e] = rng.choice(pool)
        if rng.random() < 0.5:
            d["default"] = rng.choice(pool)
        if d:
            # (the order in which the keys are written carries no meaning: 'default' may come first, environments in any order)
            items = list(d.items())
            rng.shuffle(items)
            return dict(items)
    return rng.choice(pool)


def random_side(rng, labels, max_order):
    d = {}
    order = rng.choice([0, 1, 1, 2, 2, 3][:max_order + 2])
    while order > 0:
        l = rng.choice(labels)
        c = rng.randint(1, order)
        d[l] = d.get(l, 0) + c
        order -= c
    return d


def random_space(rng, nenv, max_cells=4, graph=None):
    if graph is None:
        graph = rng.random() < 0.4
    if not graph:
        shapes = [(1, 1, 1), (2, 1, 1), (3, 1, 1), (1, 2, 1), (2, 2, 1), (1, 1, 2), (2, 1, 2), (1, 3, 1), (4, 1, 1)]
        w, h, d = rng.choice([s for s in shapes if s[0] * s[1] * s[2] <= max_cells])
        bc = tuple(rng.random() < 0.4 for _ in range(3))
        n = w * h * d
        return {"type": "grid", "w": w, "h": h, "d": d, "bc": bc, "hh": rng.choice([1, 1, 2]),
                "cell_env": [rng.randrange(nenv) for _ in range(n)]}
    n = rng.randint(1, max_cells)
    nodes = [{"hh": rng.choice([1, 1, 2]), "env": rng.randrange(nenv)} for _ in range(n)]
    edges = []
    pairs = [(i, j) for i in range(n) for j in range(i + 1, n)]
    rng.shuffle(pairs)
    for (i, j) in pairs[:rng.randint(0, len(pairs))]:
        if rng.random() < 0.5:
            i, j = j, i
        edges.append({"i": i, "j": j, "sfc": rng.choice([Fr(1), Fr(2), Fr(1, 2), Fr(4)]), "dst": rng.choice([Fr(1), Fr(2), Fr(3, 2)])})
    return {"type": "graph", "nodes": nodes, "edges": edges}


def large_model(rng, graph=None):
    """Sizes beyond the small ones used everywhere else: 4-5 species, 9-14 reactions (18-28 channels), 2-3 environments,
    a grid of 18-36 cells (any boundary mode) or a graph of 10-20 nodes of uneven degree."""
    labels = LABELS[:rng.choice([4, 5])]
    envs = ["a", "b", "c"][:rng.choice([2, 3])]
    species = [{"label": l, "D": per_env(rng, envs, DS)} for l in labels]
    if rng.random() < 0.5:
        species[rng.randrange(len(species))]["chstt"] = {rng.choice(envs): True}
    reactions = []
    for _ in range(rng.randint(9, 14)):
        r = {"sub": random_side(rng, labels, 2), "prod": random_side(rng, labels, 2), "kf": per_env(rng, envs, KS)}
        if rng.random() < 0.7:
            r["kr"] = per_env(rng, envs, KS)
        reactions.append(r)
    if graph is None:
        graph = rng.random() < 0.5
    if not graph:
        w, h, d = rng.choice([(4, 3, 2), (9, 2, 1), (3, 3, 3), (18, 1, 1), (6, 6, 1), (2, 3, 5)])
        n = w * h * d
        space = {"type": "grid", "w": w, "h": h, "d": d, "bc": tuple(rng.random() < 0.4 for _ in range(3)), "hh": rng.choice([1, 2]),
                 "cell_env": [rng.randrange(len(envs)) for _ in range(n)]}
    else:
        n = rng.randint(10, 20)
        nodes = [{"hh": rng.choice([1, 1, 2]), "env": rng.randrange(len(envs))} for _ in range(n)]
        edges = [{"i": i, "j": i + 1, "sfc": Fr(1), "dst": Fr(1)} for i in range(n - 2)]          # a chain (last node isolated) ...
        hub = rng.randrange(n - 1)
        for j in rng.sample(range(n - 1), 5):                                                        # ... plus a hub of high degree
            if j != hub and not any({e["i"], e["j"]} == {hub, j} for e in edges):
                edges.append({"i": max(hub, j), "j": min(hub, j), "sfc": Fr(2), "dst": Fr(3, 2)})
        space = {"type": "graph", "nodes": nodes, "edges": edges}
    m = Model(species, reactions, envs, space, None)
    m.state = [[rng.choice([0, 0, 1, 3, 7]) for _ in range(m.ncells())] for _ in labels]
    return m


def random_model(rng, max_species=3, max_reactions=2, max_cells=4, max_order=3, max_mol=6, graph=None,
                 multigraph=False, chem_p=0.25, big_p=0.0):
    ns = rng.randint(1, max_species)
    # (declaration order is not alphabetical order: species and environments are named in any order)
    labels = rng.sample(LABELS, ns)
    envs = rng.choice([["a", "b"], ["b", "a"], ["z", "a"]]) if rng.random() < 0.6 else [rng.choice(["a", "m"])]
    species = []
    for l in labels:
        s = {"label": l, "D": per_env(rng, envs, DS)}
        if rng.random() < chem_p:
            if len(envs) > 1 and rng.random() < 0.5:
                # per-environment flags: one environment flagged, or a full dictionary with explicit False entries next to a 'default'
                s["chstt"] = {rng.choice(envs): True} if rng.random() < 0.5 else per_env(rng, envs, [True, True, False], p_dict=1.0)
            else:
                s["chstt"] = True
        species.append(s)
    reactions = []
    for _ in range(rng.randint(0, max_reactions)):
        r = {"sub": random_side(rng, labels, max_order), "prod": random_side(rng, labels, max_order)}
        if rng.random() < 0.9:
            r["kf"] = per_env(rng, envs, KS)
        if rng.random() < 0.7:
            r["kr"] = per_env(rng, envs, KS)
        reactions.append(r)
    space = random_space(rng, len(envs), max_cells, graph)
    if multigraph and space["type"] == "graph" and space["nodes"]:
        n = len(space["nodes"])
        i = rng.randrange(n)
        space["edges"].append({"i": i, "j": i, "sfc": Fr(1), "dst": Fr(1)})          # self-loop
        if space["edges"]:
            e = dict(rng.choice(space["edges"]))
            space["edges"].append(e)                                                    # parallel edge
    m = Model(species, reactions, envs, space, None)
    nc = m.ncells()
    m.state = [[rng.choice([0, 0, 1, 2, 3, max_mol]) for _ in range(nc)] for _ in labels]
    if big_p and rng.random() < big_p:      # one entry above the Poisson / normal switch of the initial-state redistribution
        m.state[rng.randrange(len(labels))][rng.randrange(nc)] = rng.choice([100, 137, 250])
    if rng.random() < 0.3:      # explicit per-entry chemostat map (any subset of entries)
        m.chem = [[int(rng.random() < 0.3) for _ in range(nc)] for _ in labels]
    m.eq_style = random.Random(len(reactions) * 7919 + nc * 31 + len(labels)).choice(["coef", "repeat", "split", "coef"])
    return m
