"""Recorder for LibRDEngine histories (code -> spec direction of Engine.tla).

A *history* is a list of lifecycle calls on one or two engine objects.  Each history is
executed on the real library (built from /repo's working tree) in a forked child, so that a
crash or hang is an outcome and not a harness failure.  After every call the child logs what
the caller can observe; times are mapped to the abstract integer time of Engine.tla by an order
embedding computed from a reference run (policy on_iteration) of the same script and seed:

    step k happens at abstract time 2k;
    a requested time tau is 2k if it equals the k-th step time, 2k-1 if it lies strictly
    between steps k-1 and k, and 2N+1 if it is after the last step the run can make.

Only values that actually cross the C boundary are ranked (the engine's own binary64 t, and the
requested times / t_max / interval after the same unit conversion LibRDEngine.setup applies).
"""
import bisect
import ctypes
import json
import math
import os
import pickle
import select
import signal
import sys
import time

import numpy as np


def same_bits(a, b):
    a = np.ascontiguousarray(a, dtype=np.float64)
    b = np.ascontiguousarray(b, dtype=np.float64)
    return a.shape == b.shape and a.tobytes() == b.tobytes()

from .vlib import build, util

util.ensure_repo_importable()
import strengths  # noqa: E402
from strengths import (RDScript, UnitArray, Units, UnitsSystem, rdsystem_from_dict)  # noqa: E402
from strengths.units import quantity_units_dimensions, time_units_dimensions  # noqa: E402
from strengths.coarsegrain import grid_to_graph  # noqa: E402

NMAX = 400          # reference runs are cut after this many steps
UNKNOWN = -7        # "the engine reported a time that is not a step time of the reference run"

# --------------------------------------------------------------------------------------
# systems used by the lifecycle / sampling drivers (all 2 species x 2 cells = same sizes,
# so that two engine objects aliasing one native simulation never overflow a buffer)

SYSTEMS = {
    # A -> B, A diffuses: stochastic runs die after a few dozen events
    "decay": {"network": {"species": [{"label": "A", "density": 5, "D": 1}, {"label": "B", "density": 1}],
                           "reactions": [{"eq": "A -> B", "k+": 1}]},
               "space": {"w": 2, "h": 1, "d": 1}},
    # 0 -> A : never dies, state identifies the number of events
    "birth": {"network": {"species": [{"label": "A", "density": 2}, {"label": "B", "density": 3, "D": 0.5}],
                           "reactions": [{"eq": " -> A", "k+": 3}]},
               "space": {"w": 2, "h": 1, "d": 1}},
    # amounts above the Poisson / normal switch of the initial-state redistribution (an odd number of such entries)
    "big": {"network": {"species": [{"label": "A", "density": {"a": 150, "b": 0}, "D": 0.01}, {"label": "B", "density": 120, "D": 0.02}],
                         "reactions": [{"eq": "A -> B", "k+": 0.02}], "environments": ["a", "b"]},
             "space": {"w": 2, "h": 1, "d": 1, "cell_env": [0, 1]}},
    # three cells x two species (not square: a transposed layout cannot hide), with empty entries that must stay empty
    "tri": {"network": {"species": [{"label": "A", "D": 0.5}, {"label": "B", "D": 0.25}],
                         "reactions": [{"eq": "A -> B", "k+": 0.5}]},
             "space": {"w": 3, "h": 1, "d": 1},
             "state": {"value": [40, 0, 0, 0, 7, 0], "units": "molecule"}},
    # reversible with two environments and a chemostat
    "rev": {"network": {"species": [{"label": "A", "density": {"a": 6, "b": 2}, "D": 2},
                                     {"label": "B", "density": 4, "D": {"a": 1, "b": 0}, "chstt": {"b": True}}],
                         "reactions": [{"eq": "A -> 2 B", "k+": {"a": 0.5, "default": 0.25}, "k-": 0.125}],
                         "environments": ["a", "b"]},
             "space": {"w": 2, "h": 1, "d": 1, "cell_env": [0, 1]}},
}

_sys_cache = {}


def get_system(name, space="grid", bc=None):
    """bc: axes that are periodic (grid spaces only), e.g. "x" - same dimensions, another neighbour structure"""
    key = (name, space, bc)
    if key not in _sys_cache:
        d = json.loads(json.dumps(SYSTEMS[name]))
        if bc and space == "grid":
            d["space"]["boundary_conditions"] = {a: "periodical" for a in bc}
        s = rdsystem_from_dict(d)
        if space in ("graph", "graphloop"):
            from strengths import RDSystem, RDGraphSpace
            from strengths.rdgraphspace import RDGraphSpaceEdge
            g = grid_to_graph(s.space)
            if space == "graphloop":
                # valid input with degenerate structure: a self-loop on each node (same state size as every other system)
                g = RDGraphSpace(nodes=g.nodes, edges=list(g.edges) + [RDGraphSpaceEdge(i, i, 1, 1) for i in range(g.size())],
                                 units_system=g.units_system)
            s = RDSystem(network=s.network, space=g, state=s.state,
                         chemostats=s.chemostats, units_system=s.units_system)
        _sys_cache[key] = s
    return _sys_cache[key]


def make_script(c):
    """c: dict(system, space, dt, ts, tmax, policy, interval, seed, units, tunit)"""
    us = c.get("units") or {}
    usys = UnitsSystem(**us)
    system = get_system(c["system"], c.get("space", "grid"), c.get("bc"))
    if "state" in c:
        system = system.copy()
        system.state = UnitArray([float(x) for x in c["state"]], "molecule")
    if c.get("ts_unit"):        # the whole list in one foreign unit (the default t_max is then in that unit too)
        ts = UnitArray([float(x) for x in c["ts"]], c["ts_unit"])
    else:
        ts = [strengths.UnitValue(x) if isinstance(x, str) else x for x in c["ts"]]
    kw = dict(system=system,
              t_sample=ts, time_step=c["dt"],
              sampling_policy=c["policy"], sampling_interval=c.get("interval", 1),
              rng_seed=c.get("seed", 1), units_system=usys)
    if c.get("tmax", "default") != "default":
        kw["t_max"] = c["tmax"]
    if "isp" in c:
        kw["init_state_processing"] = c["isp"]
    if "ts_first" in c:
        # the script is built with other requested times and edited afterwards: what is run is the script as it is now
        script = RDScript(**dict(kw, t_sample=[float(x) for x in c["ts_first"]]))
        script.t_sample = kw["t_sample"]
        return script
    if c.get("edit_after"):
        # every field assigned after construction (through the setters) instead of passed to the constructor
        script = RDScript(system=kw["system"], t_sample=[0.0], units_system=kw["units_system"])
        for k in ("t_sample", "time_step", "sampling_policy", "sampling_interval", "rng_seed", "t_max", "init_state_processing"):
            if k in kw:
                setattr(script, k, kw[k])
        return script
    return RDScript(**kw)


# --------------------------------------------------------------------------------------
# raw access to the native simulation (what crosses the C boundary)

def raw_nsamples(lib):
    return int(lib.engineexport_get_nsamples())


def raw_time(lib):
    lib.engineexport_get_time.restype = ctypes.c_double      # (per CDLL object: the engine under test may hold another handle of the same library)
    return float(lib.engineexport_get_time())


def raw_tsample(lib):
    n = raw_nsamples(lib)
    buf = (ctypes.c_double * max(n, 1))()
    lib.engineexport_get_tsample(buf)
    return [buf[i] for i in range(n)]


def raw_traj(lib, size):
    n = raw_nsamples(lib)
    buf = (ctypes.c_double * max(n * size, 1))()
    lib.engineexport_get_trajectory(buf)
    return np.frombuffer(buf, dtype=np.float64, count=n * size).copy().reshape((n, size))


def raw_state(lib, size):
    buf = (ctypes.c_double * size)()
    lib.engineexport_get_state(buf)
    return np.frombuffer(buf, dtype=np.float64, count=size).copy()


def _poke(script):
    """What a caller may do to ITS script object once the engine has been set up with it: edit the state and the requested
    times in place, then put another (one-cell) system into it. The engine works on its own copy of the script."""
    import copy as _copy
    st = script.system.state
    if len(st.value):
        st.value[0] = st.value[0] + 3.0
    if len(script.t_sample.value):
        script.t_sample.value[-1] = script.t_sample.value[-1] * 2.0 + 1.0
    small = rdsystem_from_dict({"network": {"species": [{"label": "Z", "density": 1}], "reactions": []}})
    script.system = small


def _script_projection(script):
    """everything a script says (system included: species, reactions, space, state, chemostat map; times; policy; seed;
    processing mode; units system) - a run must leave the caller's script as it found it"""
    from . import serial
    us = script.units_system
    return json.dumps([serial.phys_script(script), [us["space"], us["time"], us["quantity"]],
                       [str(script.system.state.units), str(script.t_sample.units), str(script.time_step.units)]], sort_keys=True, default=str)


def marshalled(script, units_system):
    """The doubles LibRDEngine.setup hands to the engine for the time quantities."""
    return dict(ts=[float(x) for x in script.t_sample.convert(units_system).value],
                tmax=float(script.t_max.convert(units_system).value),
                interval=float(script.sampling_interval.convert(units_system).value),
                dt=float(script.time_step.convert(units_system).value))


# --------------------------------------------------------------------------------------
# reference run and abstraction

class Ref:
    __slots__ = ("T", "X", "ended", "m", "kind", "x0ok", "stepsok", "size")


def compute_ref(engine, script, kind):
    """Run the script with policy on_iteration, one iterate() at a time."""
    s2 = script.copy()
    s2.sampling_policy = "on_iteration"
    engine.setup(s2)
    lib = engine._lib
    size = script.system.state_size()
    m = marshalled(engine._script, engine._units_system)
    T = [raw_time(lib)]
    X = [raw_state(lib, size)]
    ended = False
    for _ in range(NMAX):
        if not engine.iterate():
            ended = True
        t = raw_time(lib)
        if t != T[-1]:
            T.append(t)
            X.append(raw_state(lib, size))
        if ended:
            break
    traj = raw_traj(lib, size)
    ts = raw_tsample(lib)
    r = Ref()
    r.T, r.X, r.ended, r.m, r.kind, r.size = T, X, ended, m, kind, size
    # the trajectory export and the state export must agree (both are species-major)
    r.stepsok = (len(ts) == len(T) and all(a == b for a, b in zip(ts, T))
                 and all(same_bits(traj[i], X[i]) for i in range(len(T))))
    if kind != "gillespie":
        acc, ok = 0.0, True
        for k in range(len(T)):
            ok = ok and (T[k] == acc)
            acc += m["dt"]
        r.stepsok = r.stepsok and ok
    # with processing mode 'none' sample 0 is the marshalled system state, species-major
    x0 = np.array(engine._script.system.state.convert(engine._units_system).value, dtype=float)
    mode = script.init_state_processing
    r.x0ok = True
    if mode == "none" or (mode == "auto" and kind == "euler"):
        r.x0ok = bool(same_bits(x0, X[0]))
    else:
        # every processing mode leaves an empty entry empty (Poisson(0) = 0, redistribution places nothing where nothing was):
        # the t = 0 record is laid out like the state, species by species, cell by cell
        r.x0ok = bool(all(X[0][k] == 0 for k in range(len(x0)) if x0[k] == 0))
    engine.finalize()
    return r


def abs_tau(tau, T):
    k = bisect.bisect_left(T, tau)
    if k < len(T):
        return 2 * k if T[k] == tau else 2 * k - 1
    return 2 * (len(T) - 1) + 1


def abs_step(t, T):
    k = bisect.bisect_left(T, t)
    if k < len(T) and T[k] == t:
        return 2 * k
    return UNKNOWN


def abstract_cfg(ref, policy):
    m, T = ref.m, ref.T
    pol = {"on_t_sample": 0, "on_iteration": 1, "on_interval": 2, "no_sampling": 3}[policy]
    tmax = -1 if m["tmax"] < 0 else abs_tau(m["tmax"], T)
    qs = []
    if pol == 2:
        raw = [math.floor(t / m["interval"]) if m["interval"] != 0 else 0 for t in T]
        order = sorted(set(raw))
        rank = {v: i for i, v in enumerate(order)}
        qs = [rank[v] for v in raw]
    N = len(T) - 1
    if ref.kind != "gillespie":
        death = -2
    elif ref.ended and not (m["tmax"] >= 0 and T[N] > m["tmax"]):
        death = N
    else:
        death = -1
    return {"kind": "gill" if ref.kind == "gillespie" else "fixed", "dt": 2, "tmax": tmax,
            "policy": pol, "interval": 1, "ts": [abs_tau(x, T) for x in m["ts"]], "qs": qs,
            "death": death}


# --------------------------------------------------------------------------------------
# executing one history in a forked child

class Runner:
    """Lives in a worker process; owns the loaded library, scripts and reference cache."""

    def __init__(self, flavour="plain", use_api_factories=False):
        self.lib_path = build.build_engine(flavour)
        self.lib = ctypes.CDLL(self.lib_path)
        self.refs = {}
        self.scripts = {}
        self.script_proj = {}

    def engine(self, kind, factories=False):
        if factories:       # through strengths.engine_collection (same library file, hence the same native globals)
            return build.make_engine_via_collection(kind)
        return build.make_engine(kind, lib=self.lib)

    def script(self, c):
        key = json.dumps(c, sort_keys=True)
        if key not in self.scripts:
            self.scripts[key] = make_script(c)
            self.script_proj[key] = _script_projection(self.scripts[key])
        return key, self.scripts[key]

    def ref(self, c, kind, timeout=20):
        key, script = self.script(c)
        rk = (key, kind)
        if rk not in self.refs:
            self.refs[rk] = self._in_child(lambda: compute_ref(self.engine(kind), script, kind), timeout)
        return self.refs[rk]

    def _in_child(self, fn, timeout):
        r, w = os.pipe()
        pid = os.fork()
        if pid == 0:
            try:
                os.close(r)
                out = pickle.dumps(("ok", fn()))
            except BaseException as e:  # noqa
                out = pickle.dumps(("exc", repr(e)))
            try:
                with os.fdopen(w, "wb") as f:
                    f.write(out)
            finally:
                os._exit(0)
        os.close(w)
        data = _read_all(r, timeout, pid)
        _, status = os.waitpid(pid, 0)
        if data is None:
            return ("hang", None)
        if os.WIFSIGNALED(status) or not data:
            return ("crash", os.WTERMSIG(status) if os.WIFSIGNALED(status) else None)
        tag, val = pickle.loads(data)
        if tag == "exc":
            return ("exc", val)
        return val

    # ---- one history ----
    def run_history(self, h, timeout=20):
        """h = {"id":..., "kinds": {"e1": kind, ...}, "cfgs": {cid: cfgdict}, "calls": [[call, obj, arg?], ...]}
        returns {"id":..., "ev": [...], "meta": {...}}"""
        refs = {}
        bad = None
        for cid, c in h["cfgs"].items():
            for obj, kind in h["kinds"].items():
                if any(cl[0] in ("setup", "simulate") and cl[1] == obj and cl[2] == cid for cl in h["calls"]):
                    rf = self.ref(c, kind)
                    if isinstance(rf, tuple):
                        bad = {"call": "REF-" + rf[0].upper(), "obj": obj, "cfg": cid, "info": str(rf[1])}
                    refs[(cid, kind)] = rf
        if bad:
            return {"id": h["id"], "ev": [bad], "meta": {"refproblem": True}}
        r, w = os.pipe()
        pid = os.fork()
        if pid == 0:
            os.close(r)
            try:
                with os.fdopen(w, "w") as f:
                    self._child(h, refs, f)
            except BaseException as e:  # noqa
                try:
                    sys.stderr.write("child exception: %r\n" % (e,))
                except Exception:
                    pass
            finally:
                os._exit(0)
        os.close(w)
        part = []
        data = _read_all(r, timeout, pid, part)
        _, status = os.waitpid(pid, 0)
        ev = []
        text = (data if data is not None else (part[0] if part else b"")).decode("utf8", "replace")
        for line in text.splitlines():
            try:
                ev.append(json.loads(line))
            except ValueError:
                pass
        ncalls = len(h["calls"])
        if data is None:
            ev.append({"call": "HANG", "obj": h["calls"][min(len(ev), ncalls - 1)][1]})
        elif os.WIFSIGNALED(status):
            ev.append({"call": "CRASH", "obj": h["calls"][min(len(ev), ncalls - 1)][1], "sig": os.WTERMSIG(status)})
        elif len(ev) < ncalls:
            ev.append({"call": "ABORTED", "obj": h["calls"][min(len(ev), ncalls - 1)][1]})
        return {"id": h["id"], "ev": ev, "meta": {}}

    def _child(self, h, refs, f):
        engines = {obj: self.engine(kind, bool(h.get("factories"))) for obj, kind in h["kinds"].items()}
        lib = self.lib
        own = {}            # obj -> (cid, kind) of its last setup
        glob = None         # (cid, kind) of the globally last setup
        view = h.get("view", "own")   # which reference maps raw times: the object's own set-up or the globally last one

        nemit = [0]
        max_events = 40 * len(h["calls"]) + 4000      # a driver that never stops calling the engine must not flood the recorder

        def emit(d):
            nemit[0] += 1
            if nemit[0] > max_events:
                f.write(json.dumps({"call": "RUNAWAY", "obj": d.get("obj"), "after": d.get("call")}) + "\n")
                f.flush()
                os._exit(0)
            f.write(json.dumps(d) + "\n")
            f.flush()

        def cur_ref(obj):
            key = own.get(obj) if view == "own" else glob
            return refs.get(key) if key else None

        def seen(obj, d):
            rf = cur_ref(obj)
            d["ns"] = raw_nsamples(lib)
            d["t"] = abs_step(raw_time(lib), rf.T) if rf else UNKNOWN
            return d

        nsetups = [0]
        setup_key = {}
        poked = [False]

        def perform(cl, given_script=None):
            """one lifecycle call on the real engine, logged after it returned; returns (python result, exception)"""
            nonlocal glob
            call, obj = cl[0], cl[1]
            eng = engines[obj]
            d = {"call": call, "obj": obj}
            result, raised = None, None
            try:
                if call == "setup":
                    cid = cl[2]
                    c = h["cfgs"][cid]
                    skey, script = self.script(c)
                    us_before = _script_projection(script)
                    nsetups[0] += 1
                    poke = given_script is None and (nsetups[0] + len(h["calls"])) % 2 == 0
                    handed = script if given_script is None else given_script
                    if poke:
                        import copy as _copy
                        handed = _copy.deepcopy(script)          # an equal script of the caller's own, edited once it is handed over
                    result = eng.setup(handed)
                    if poke:
                        _poke(handed)
                        poked[0] = True
                    us_after = _script_projection(script)
                    setup_key[obj] = skey
                    own[obj] = (cid, h["kinds"][obj])
                    glob = own[obj]
                    rf = refs[own[obj]]
                    # the abstraction is computed from what this very set-up marshalled
                    m = marshalled(eng._script, eng._units_system)
                    cfg = abstract_cfg(rf, eng._script.sampling_policy)
                    if m != rf.m:
                        cfg["kind"] = "marshal-mismatch"
                    # what the script says, computed from the configuration and not from the script object: the default
                    # t_max is the last requested time of the script as it is run
                    if c.get("tmax", "default") == "default" and m["ts"] and m["tmax"] != m["ts"][-1]:
                        cfg["kind"] = "default-t_max-is-not-the-last-requested-time"
                    if us_before != us_after:
                        cfg["kind"] = "caller-script-modified-by-setup"
                    if us_before != self.script_proj[skey]:
                        cfg["kind"] = "caller-script-modified-by-earlier-calls"
                    if given_script is not None and given_script is not script:
                        cfg["kind"] = "driver-handed-over-another-script"
                    d["cfg"] = cfg
                    d["cid"] = cid
                    d["checks"] = {"x0ok": rf.x0ok, "stepsok": rf.stepsok}
                    if not (rf.x0ok and rf.stepsok):
                        d["cfg"] = dict(cfg, kind="ref-inconsistent")
                    seen(obj, d)
                elif call == "iterate":
                    result = eng.iterate()
                    d["ret"] = bool(result)
                    seen(obj, d)
                elif call == "iterate_n":
                    d["k"] = int(cl[2])
                    result = eng.iterate_n(int(cl[2]))
                    d["ret"] = bool(result)
                    seen(obj, d)
                elif call == "run":
                    d["ms"] = int(cl[2])
                    result = eng.run(int(cl[2]))
                    d["ret"] = bool(result)
                    seen(obj, d)
                elif call == "sample":
                    eng.sample()
                    seen(obj, d)
                elif call == "get_progress":
                    p = eng.get_progress()
                    result = p
                    rf = cur_ref(obj)
                    seen(obj, d)
                    d["raw"] = p
                    if rf is None:
                        d["pnum"] = UNKNOWN
                    elif rf.m["tmax"] > 0:
                        tt = p * rf.m["tmax"] / 100.0
                        cand = [k for k, T in enumerate(rf.T) if abs(T - tt) <= 1e-9 * max(1e-300, abs(T))]
                        d["pnum"] = 2 * cand[0] if cand else UNKNOWN
                    else:
                        d["pnum"] = 0 if p == 0 else UNKNOWN
                elif call == "is_complete":
                    result = eng.is_complete()
                    d["ret"] = bool(result)
                elif call == "get_output":
                    cid_own = own.get(obj, (None,))[0]
                    want_units = dict({"space": "µm", "time": "s", "quantity": "molecule"}, **(h["cfgs"].get(cid_own, {}).get("units") or {})) if cid_own else None
                    result = self._output(eng, lib, cur_ref(obj), d, want_units if view == "own" else None)
                    if view == "own" and obj in setup_key and result is not None and getattr(result, "script", None) is not None:
                        # the trajectory carries the script that was set up - not what the caller made of its object since
                        if _script_projection(result.script) != self.script_proj[setup_key[obj]]:
                            d["dataok"] = False
                            d["why"] = (d.get("why") or []) + ["the script stored in the trajectory is not the script that was set up"]
                    seen(obj, d)
                elif call == "finalize":
                    eng.finalize()
                elif call == "drop":
                    # the caller lets go of the object: it is collected now; a later call under this name gets a new object
                    import gc
                    del eng
                    engines.pop(obj, None)
                    gc.collect()
                    engines[obj] = self.engine(h["kinds"][obj], bool(h.get("factories")))
                    own.pop(obj, None)
                else:
                    raise ValueError(call)
            except Exception as e:  # an exception out of a lifecycle call is an outcome
                d = {"call": "EXC", "obj": obj, "in": call, "exc": repr(e)[:300]}
                raised = e
            emit(d)
            if poked[0]:
                # the environment action of Engine.tla: logged after the set-up it followed, with what an observer reads now
                poked[0] = False
                if d.get("call") == "setup":
                    emit(seen(obj, {"call": "caller_edits", "obj": obj}))
            return result, raised

        class Proxy:
            """Stands between a driver (simulate_script) and the real engine: every call the driver makes is performed on the
            real engine and logged like any other call of the history."""

            def __init__(self, obj, cid):
                self.obj, self.cid, self.last_output = obj, cid, None

            def _do(self, cl, **kw):
                r, e = perform(cl, **kw)
                if e is not None:
                    raise e
                return r

            def setup(self, script):
                return self._do(["setup", self.obj, self.cid], given_script=script)

            def iterate(self):
                return self._do(["iterate", self.obj])

            def iterate_n(self, n):
                return self._do(["iterate_n", self.obj, n])

            def run(self, ms):
                # the slice length is the driver's business; the history records it as asked
                return self._do(["run", self.obj, ms])

            def sample(self):
                return self._do(["sample", self.obj])

            def get_progress(self):
                return self._do(["get_progress", self.obj])

            def is_complete(self):
                return self._do(["is_complete", self.obj])

            def get_output(self):
                self.last_output = self._do(["get_output", self.obj])
                return self.last_output

            def finalize(self):
                return self._do(["finalize", self.obj])

            def get_option(self):
                return engines[self.obj].get_option()

            def __getattr__(self, name):        # anything else the driver may read (option, description, ...)
                return getattr(engines[self.obj], name)

        for cl in h["calls"]:
            if cl[0] == "simulate":             # ["simulate", obj, cid, print_progress]
                from strengths import simulate_script
                obj, cid = cl[1], cl[2]
                _, script = self.script(h["cfgs"][cid])
                emit({"call": "simulate_begin", "obj": obj})
                px = Proxy(obj, cid)
                try:
                    devnull = open(os.devnull, "w")
                    saved = sys.stdout
                    sys.stdout = devnull
                    try:
                        out = simulate_script(script, px, bool(cl[3]) if len(cl) > 3 else False)
                    finally:
                        sys.stdout = saved
                        devnull.close()
                    emit({"call": "simulate_end", "obj": obj, "outok": bool(out is not None and out is px.last_output)})
                except Exception as e:  # noqa
                    emit({"call": "EXC", "obj": obj, "in": "simulate", "exc": repr(e)[:300]})
            else:
                perform(cl)

    def _output(self, eng, lib, rf, d, want_units=None):
        out = eng.get_output()
        size = rf.size if rf is not None else eng._script.system.state_size()
        ts = raw_tsample(lib)
        traj = raw_traj(lib, size)
        ns = len(ts)
        recT, recN, ok = [], [], True
        why = []
        for j in range(ns):
            a = abs_step(ts[j], rf.T) if rf else UNKNOWN
            recT.append(a)
            recN.append(a // 2 if a >= 0 else UNKNOWN)
            if a >= 0:
                if not same_bits(traj[j], rf.X[a // 2]):
                    ok = False
                    why.append("data[%d] is not the state of step %d" % (j, a // 2))
            else:
                ok = False
                why.append("t[%d] is not a step time" % j)
        # the Python-level trajectory: same numbers, converted to the script's units, right shape
        us_e, us_s = eng._units_system, eng._script.units_system
        exp_t = UnitArray(np.array(ts), Units(sys=us_e, dim=time_units_dimensions()), check_value=False).convert(us_s)
        exp_x = UnitArray(traj.reshape(-1), Units(sys=us_e, dim=quantity_units_dimensions()), check_value=False).convert(us_s)
        if len(out.t) != ns or not same_bits(out.t.value, exp_t.value):
            ok = False
            why.append("trajectory times differ from the engine's")
        if len(out.data) != ns * size or not same_bits(out.data.value, exp_x.value):
            ok = False
            why.append("trajectory data differ from the engine's / wrong length")
        if not (out.t.units == exp_t.units and out.data.units == exp_x.units):
            ok = False
            why.append("trajectory units")
        if out.nsamples() != ns:
            ok = False
            why.append("nsamples()")
        if want_units is not None:
            du, tu = out.data.units.sys, out.t.units.sys
            if du["quantity"] != want_units["quantity"] or tu["time"] != want_units["time"]:
                ok = False
                why.append("trajectory is not in the script's units: %s / %s, script says %s" % (du["quantity"], tu["time"], want_units))
        # the trajectory as a file: what is loaded back has one time per recorded sample and the same data
        try:
            from strengths import load_rdtrajectory, save_rdtrajectory
            base = os.path.join(util.subdir("traj_files"), "t_%d_%d" % (os.getpid(), ns))
            save_rdtrajectory(out, base, separate_data=bool(ns % 2))
            back = load_rdtrajectory(base + ".json")
            # (values compared as numbers: a NaN of an unstable Euler run comes back from JSON text as a NaN, not necessarily
            #  with the same sign / payload bits)
            if (back.nsamples() != ns or not np.array_equal(back.t.value, out.t.value, equal_nan=True)
                    or not np.array_equal(back.data.value, out.data.value, equal_nan=True)
                    or len(back.data) != back.nsamples() * back.nspecies() * back.ncells()):
                ok = False
                why.append("saved and re-loaded trajectory differs (times, data or shape)")
        except Exception as e:  # noqa
            ok = False
            why.append("save / load of the trajectory raised %r" % (e,))
        d["recT"], d["recN"], d["dataok"] = recT, recN, ok
        if why:
            d["why"] = why[:4]
        return out


def _read_all(fd, timeout, pid, partial=None):
    """Read until EOF or timeout; on timeout kill pid and return None (what was read so far goes to `partial`)."""
    chunks = []
    deadline = time.time() + timeout
    while True:
        left = deadline - time.time()
        if left <= 0:
            try:
                os.kill(pid, signal.SIGKILL)
            except ProcessLookupError:
                pass
            os.close(fd)
            if partial is not None:
                partial.append(b"".join(chunks))
            return None
        rl, _, _ = select.select([fd], [], [], min(left, 1.0))
        if rl:
            b = os.read(fd, 1 << 16)
            if not b:
                os.close(fd)
                return b"".join(chunks)
            chunks.append(b)
