"""Record per-iteration state traces of the stochastic engines and validate them against RDStep.tla."""
import json
import multiprocessing as mp
import os
import pickle
import re

import numpy as np

from . import engine_rec
from .vlib import build, tlc, util

util.ensure_repo_importable()
from strengths import RDScript, rdsystem_from_dict  # noqa: E402


def build_system(model, explicit_state=True):
    return rdsystem_from_dict(json.loads(json.dumps(model.strengths_dict(explicit_state))))


def record_run(lib, model, kind, seed, max_iter, dt=0.05, isp="auto", cap=1e3):
    """Runs the engine with policy on_iteration; returns the trace dict for Trace_RDStep."""
    system = build_system(model)
    script = RDScript(system=system, t_sample=[0], t_max=-1.0, time_step=dt, sampling_policy="on_iteration",
                      rng_seed=seed, init_state_processing=isp)
    eng = build.make_engine(kind, lib=lib)
    eng.setup(script)
    unfinished = True
    it = 0
    size = system.state_size()
    while unfinished and it < max_iter:
        unfinished = eng.iterate()
        it += 1
        if cap is not None and float(np.max(np.abs(engine_rec.raw_state(lib, size)))) > cap:
            break       # exploding population: per-step event counts are C ints (propensities grow like x^order); stay far away from their range
    traj = engine_rec.raw_traj(lib, size)
    ts = engine_rec.raw_tsample(lib)
    eng.finalize()
    nC, nS = model.ncells(), len(model.species)
    integral = bool(np.all(traj == np.round(traj))) and bool(np.all(np.abs(traj) < 2 ** 30))
    states = [[[int(row[s * nC + i]) for s in range(nS)] for i in range(nC)] for row in traj] if integral else []
    tinc = all(ts[k] < ts[k + 1] for k in range(len(ts) - 1)) and (len(ts) == 0 or ts[0] == 0.0)
    tr = dict(model.spec_cfg())
    tr.update({"kind": kind, "states": states, "died": (not unfinished) and kind == "gillespie",
               "cut": bool(unfinished), "tinc": bool(tinc), "integral": integral, "nrec": len(ts)})
    return tr, ts, traj


_lib = None


def _init(flavour):
    global _lib
    import ctypes
    _lib = ctypes.CDLL(build.build_engine(flavour))


def _one(job):
    """job = (id, model, kind, seed, max_iter, dt) ; run in a forked child for crash / hang isolation"""
    jid, model, kind, seed, max_iter, dt = job
    r, w = os.pipe()
    pid = os.fork()
    if pid == 0:
        os.close(r)
        try:
            tr, ts, traj = record_run(_lib, model, kind, seed, max_iter, dt)
            out = pickle.dumps(("ok", tr, ts, traj))
        except BaseException as e:  # noqa
            out = pickle.dumps(("exc", repr(e)))
        with os.fdopen(w, "wb") as f:
            f.write(out)
        os._exit(0)
    os.close(w)
    data = engine_rec._read_all(r, 20, pid)
    _, status = os.waitpid(pid, 0)
    if data is None:
        return jid, ("hang",)
    if os.WIFSIGNALED(status) or not data:
        return jid, ("crash", os.WTERMSIG(status) if os.WIFSIGNALED(status) else None)
    return jid, pickle.loads(data)


def record_many(jobs, flavour="plain"):
    build.build_engine(flavour)
    ctx = mp.get_context("fork")
    with ctx.Pool(min(util.NCPU, max(1, len(jobs))), initializer=_init, initargs=(flavour,)) as pool:
        return dict(pool.map(_one, jobs, chunksize=1))


def validate(traces, timeout=1800):
    """traces: list of trace dicts with 'id'. returns (accepted ids, tlc results)"""
    if not traces:
        return set(), []
    total = sum(len(t["states"]) for t in traces)
    shards = min(util.NCPU, max(1, total // 1500))
    d = util.subdir("traces")
    files = []
    order = sorted(traces, key=lambda t: -len(t["states"]))
    for s in range(shards):
        part = order[s::shards]
        if part:
            p = os.path.join(d, "rd_%d_%d.json" % (os.getpid(), s))
            with open(p, "w") as f:
                json.dump(part, f)
            files.append(p)
    ctx = mp.get_context("fork")
    with ctx.Pool(len(files)) as pool:
        res = pool.starmap(_tlc_one, [(p, timeout) for p in files])
    acc = set()
    for r in res:
        for m in re.finditer(r'<<"ACCEPTED", (?:"([^"]*)"|(-?\d+))>>', r.out):
            acc.add(m.group(1) if m.group(1) is not None else int(m.group(2)))
    for p in files:
        os.remove(p)
    return acc, res


def _tlc_one(path, timeout):
    return tlc.run("Trace_RDStep", workers=1, env={"TRACE_FILE": path}, timeout=timeout, heap="3g")


def diagnose(trace):
    d = util.subdir("traces")
    p = os.path.join(d, "rd_diag_%d.json" % os.getpid())
    with open(p, "w") as f:
        json.dump([trace], f)
    r = tlc.run("Trace_RDStep", cfg="Trace_RDStepDiag", workers=1, env={"TRACE_FILE": p}, timeout=300)
    os.remove(p)
    reached = 1
    for m in re.finditer(r'<<"REACHED", (?:"[^"]*"|-?\d+), (\d+)>>', r.out):
        reached = max(reached, int(m.group(1)))
    st = trace["states"]
    inv = r.violated
    return {"reached_state": reached, "n_states": len(st), "violated": inv,
            "state_before": st[reached - 2] if inv and reached >= 2 else (st[reached - 1] if reached - 1 < len(st) else None),
            "state_after": st[reached - 1] if inv and reached - 1 < len(st) else (st[reached] if reached < len(st) else None),
            "tlc_error": None if r.ok else r.error}
