"""Runs jobs against the sanitizer build of the engine, in-process (the sanitizer runtime is LD_PRELOADed
into this interpreter).  Progress is appended to a file so that the parent knows which job a report belongs to.

usage: python -m harness.san_driver <lib.so> <jobs.json> <progress.txt> <start-index>
job = {"id": ..., "kind": "history", "history": {...}}  |  {"id": ..., "kind": "model", "model": <pickled-hex>, "engine": .., "seed": .., "policy": .., "isp": .., "iters": ..}
"""
import ctypes
import json
import pickle
import sys


def main():
    libpath, jobsfile, progress, start = sys.argv[1], sys.argv[2], sys.argv[3], int(sys.argv[4])
    from .vlib import build, util
    util.ensure_repo_importable()
    from . import engine_rec, rd_rec
    from strengths import RDScript
    lib = ctypes.CDLL(libpath)
    jobs = json.load(open(jobsfile))
    pf = open(progress, "a")

    def mark(s):
        pf.write(s + "\n")
        pf.flush()

    import faulthandler
    for k in range(start, len(jobs)):
        j = jobs[k]
        mark("BEGIN %d" % k)
        faulthandler.dump_traceback_later(30, exit=True)      # a job that does not return within 30 s ends the process
        try:
            if j["kind"] == "history":
                h = j["history"]
                engines = {o: build.make_engine(kd, lib=lib) for o, kd in h["kinds"].items()}
                for cl in h["calls"]:
                    if cl[0] == "drop":
                        import gc
                        engines.pop(cl[1], None)
                        gc.collect()
                        engines[cl[1]] = build.make_engine(h["kinds"][cl[1]], lib=lib)
                        continue
                    e = engines[cl[1]]
                    if cl[0] == "setup":
                        mine = engine_rec.make_script(h["cfgs"][cl[2]])
                        e.setup(mine)
                        # the caller goes on using ITS script object (state and times edited in place, another system put in):
                        # the engine sizes and fills its buffers from the simulation it was set up with
                        engine_rec._poke(mine)
                    elif cl[0] == "iterate_n":
                        e.iterate_n(int(cl[2]))
                    elif cl[0] == "run":
                        e.run(int(cl[2]))
                    else:
                        getattr(e, cl[0])()
            else:
                m = pickle.loads(bytes.fromhex(j["model"]))
                system = rd_rec.build_system(m)
                kw = dict(system=system, t_sample=j["ts"], time_step=j["dt"], sampling_policy=j["policy"], sampling_interval=j["dt"] * 2.5,
                          rng_seed=j["seed"], init_state_processing=j["isp"])
                if j.get("tmax") is not None:
                    kw["t_max"] = j["tmax"]
                script = RDScript(**kw)
                e = build.make_engine(j["engine"], lib=lib)
                e.setup(script)
                if k % 2:
                    engine_rec._poke(script)
                e.iterate_n(j["iters"])
                e.sample()
                e.get_output()
                e.finalize()
                e.finalize()
            mark("END %d ok" % k)
        except Exception as ex:  # noqa
            mark("END %d exc %r" % (k, repr(ex)[:100]))
        faulthandler.cancel_dump_traceback_later()
    mark("DONE")


if __name__ == "__main__":
    main()
