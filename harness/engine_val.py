"""Record histories on the real engine in parallel and validate the traces with TLC."""
import json
import multiprocessing as mp
import os
import re

from .vlib import build, tlc, util

_runner = None


def _init(flavour):
    global _runner
    from . import engine_rec
    _runner = engine_rec.Runner(flavour)


def _run_one(h):
    return _runner.run_history(h)


def record(histories, flavour="plain", nproc=None):
    build.build_engine(flavour)      # build once, in the parent
    nproc = nproc or util.NCPU
    if len(histories) < 8:
        nproc = 1
    ctx = mp.get_context("fork")
    with ctx.Pool(nproc, initializer=_init, initargs=(flavour,)) as pool:
        out = pool.map(_run_one, histories, chunksize=max(1, min(64, len(histories) // (nproc * 4) or 1)))
    return out


def _strip(tr):
    """What TLC sees: id + events without harness-only fields."""
    keep = ("call", "obj", "cfg", "k", "ret", "ns", "t", "pnum", "recT", "recN", "dataok", "outok")
    return {"id": tr["id"], "ev": [{k: e[k] for k in keep if k in e} for e in tr["ev"]]}


def validate(traces, cfg="Trace_Engine", shards=None, timeout=1800, _depth=0, module="Trace_Engine"):
    """Returns (accepted_ids, tlc_results). Traces whose id is not accepted are rejected."""
    if not traces:
        return set(), []
    shards = shards or min(util.NCPU, max(1, len(traces) // 200))
    d = util.subdir("traces")
    files = []
    for s in range(shards):
        part = [_strip(t) for t in traces[s::shards]]
        if not part:
            continue
        p = os.path.join(d, "tr_%s_%d_%d.json" % (cfg, os.getpid(), len(files)) + "_%d" % id(traces))
        with open(p, "w") as f:
            json.dump(part, f)
        files.append(p)
    ctx = mp.get_context("fork")
    with ctx.Pool(len(files)) as pool:
        res = pool.starmap(_tlc_one, [(cfg, p, timeout, module) for p in files])
    accepted = set()
    for r in res:
        for m in re.finditer(r'<<"ACCEPTED", (?:"([^"]*)"|(-?\d+))>>', r.out):
            accepted.add(m.group(1) if m.group(1) is not None else int(m.group(2)))
    for p in files:
        os.remove(p)
    # A trace the specification cannot even evaluate (TLC raises while exploring it) stops its whole shard.
    # Such shards are re-validated trace by trace: the offending traces stay unaccepted (and are reported by the
    # caller as violations with the evaluation error), the others get their verdict.
    broken = [s for s, r in enumerate(res) if not r.ok and not r.timeout]
    if broken and _depth == 0:
        redo = [t for s in broken for t in traces[s::shards] if t["id"] not in accepted]
        with ctx.Pool(min(util.NCPU, max(1, len(redo)))) as pool:
            singles = pool.starmap(_single, [(cfg, t, timeout, module) for t in redo])
        for t, (ok, r1) in zip(redo, singles):
            if ok:
                accepted.add(t["id"])
        for s in broken:
            res[s].error_recovered = res[s].error
            res[s].error = None
            res[s].finished = True
    return accepted, res


def _single(cfg, trace, timeout, module="Trace_Engine"):
    d = util.subdir("traces")
    p = os.path.join(d, "single_%d_%s.json" % (os.getpid(), re.sub(r"\W", "_", str(trace["id"]))[:40]))
    with open(p, "w") as f:
        json.dump([_strip(trace)], f)
    r = tlc.run(module, cfg=cfg, workers=1, env={"TRACE_FILE": p}, timeout=min(timeout, 300), heap="2g")
    os.remove(p)
    return ('"ACCEPTED"' in r.out), r


def accepted_prefix(trace, cfg, module):
    """Length of the longest prefix of a rejected trace the trace specification accepts (bisection, one TLC run per probe)."""
    lo, hi = 0, len(trace["ev"])
    while lo < hi:
        mid = (lo + hi + 1) // 2
        ok, _ = _single(cfg, dict(trace, ev=trace["ev"][:mid]), 300, module)
        if ok:
            lo = mid
        else:
            hi = mid - 1
    return lo


def _tlc_one(cfg, path, timeout, module="Trace_Engine"):
    return tlc.run(module, cfg=cfg, workers=1, env={"TRACE_FILE": path}, timeout=timeout, heap="3g")


def diagnose(trace, cfg="Trace_Engine"):
    """Longest prefix of one rejected trace that the specification accepts, and why it stops."""
    d = util.subdir("traces")
    p = os.path.join(d, "diag_%d_%s.json" % (os.getpid(), re.sub(r"\W", "_", str(trace["id"]))[:40]))
    with open(p, "w") as f:
        json.dump([_strip(trace)], f)
    r = tlc.run("Trace_Engine", cfg=cfg + "Diag", workers=1, env={"TRACE_FILE": p}, timeout=300)
    os.remove(p)
    reached = 1
    for m in re.finditer(r'<<"REACHED", (?:"[^"]*"|-?\d+), (\d+)>>', r.out):
        reached = max(reached, int(m.group(1)))
    ev = trace["ev"]
    inv = r.violated
    # state l = k+1 is the state after event k; if that state breaks a clause, event k is the culprit
    pre = reached - 2 if (inv and reached >= 2) else reached - 1
    at = ev[pre] if 0 <= pre < len(ev) else None
    return {"accepted_prefix": pre, "length": len(ev), "rejected_event": at,
            "violated": inv, "tlc_error": r.error if not r.ok else None}
