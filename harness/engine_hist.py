"""History generators for the Engine checks (C08, C09, C10) and the shared verdict logic."""
import itertools
import random

from . import engine_val

KINDS = ["euler", "tauleap", "gillespie"]

# three tiny configurations that complete within 2-4 steps (lifecycle exploration)
LC_CFGS = {
    # (A: requested times, hence the default t_max, in a foreign unit; C: explicit t_max and step in foreign units)
    "A": dict(system="decay", dt=1.0, ts=[0, 1500.0], ts_unit="ms", policy="on_t_sample", seed=11),
    "B": dict(system="birth", dt=0.5, ts=[1.0], policy="on_interval", interval=0.75, seed=12),
    "C": dict(system="rev", dt="250 ms", ts=[0.3], tmax="0.01 min", policy="on_iteration", seed=13),
}
# gillespie needs event-scale horizons: few events before t_max
LC_CFGS_G = {
    "A": dict(system="decay", dt=1.0, ts=[0, 20.0], ts_unit="ms", policy="on_t_sample", seed=11),
    "B": dict(system="birth", dt=0.5, ts=[0.3], policy="on_interval", interval=0.1, seed=12),
    "C": dict(system="rev", dt=0.25, ts=[0.01], tmax="30 ms", policy="on_iteration", seed=13),
}

ALPHABET1 = [("setup", "A"), ("setup", "B"), ("setup", "C"), ("iterate",), ("iterate_n", 2), ("iterate_n", 0), ("run", 0),
             ("sample",), ("get_progress",), ("is_complete",), ("get_output",), ("finalize",)]


def cfgs_for(kind, space="grid"):
    base = LC_CFGS_G if kind == "gillespie" else LC_CFGS
    if space == "grid":
        return base
    return {k: dict(v, space=space) for k, v in base.items()}


def _call(sym, obj):
    return [sym[0], obj] + list(sym[1:])


def respecting(calls):
    """Lifecycle-respecting: every object is set up before use and not used after finalize
    until it is set up again (finalize itself is always allowed)."""
    live = {}
    for c in calls:
        name, obj = c[0], c[1]
        if name == "setup":
            live[obj] = True
        elif name in ("finalize", "drop"):
            live[obj] = False
        elif not live.get(obj, False):
            return False
    return True


def exhaustive_single(depth):
    """All lifecycle-respecting call sequences 'setup(A|B|C); <depth calls>' on one object."""
    out = []
    for first in ("A", "B", "C"):
        for seq in itertools.product(ALPHABET1, repeat=depth):
            calls = [["setup", "e1", first]] + [_call(s, "e1") for s in seq]
            if respecting(calls):
                out.append(calls)
    return out


def cfgs_mixed(kind):
    """A on a grid, B on the grid's graph, C on a graph with self-loops: one engine object switching between the grid and the
    graph implementation of the native simulation (two different C++ objects behind one set of entry points)."""
    base = LC_CFGS_G if kind == "gillespie" else LC_CFGS
    return {"A": dict(base["A"], space="grid"), "B": dict(base["B"], space="graph"), "C": dict(base["C"], space="graphloop")}


def exhaustive_switching(depth):
    """All lifecycle-respecting sequences of `depth` calls over {setup A (grid), setup B (graph), finalize, iterate, get_output}."""
    alpha = [("setup", "A"), ("setup", "B"), ("finalize",), ("iterate",), ("get_output",)]
    out = []
    for seq in itertools.product(alpha, repeat=depth):
        if seq[0][0] != "setup":
            continue
        calls = [_call(s, "e1") for s in seq]
        if respecting(calls):
            out.append(calls)
    return out


def exhaustive_double(depth):
    """All lifecycle-respecting sequences of `depth` calls over two objects after 'e1.setup(A)'."""
    syms = [(s, o) for o in ("e1", "e2") for s in ALPHABET1]
    out = []
    for seq in itertools.product(syms, repeat=depth):
        calls = [["setup", "e1", "A"]] + [_call(s, o) for s, o in seq]
        if not respecting(calls):
            continue
        if not any(c[1] == "e2" for c in calls):
            continue        # covered by exhaustive_single
        out.append(calls)
    return out


def overlapping(calls):
    """True if at some point two objects have live set-ups at once (finding F6 territory)."""
    live = set()
    for c in calls:
        if c[0] == "setup":
            live.add(c[1])
            if len(live) > 1:
                return True
        elif c[0] == "finalize":
            live.discard(c[1])
    return False


def mk_history(hid, calls, kinds, cfgs=None, view="own"):
    used = {c[2] for c in calls if c[0] == "setup"}
    if cfgs is None:
        # one cfg table per history; gillespie objects use event-scale horizons
        # (both objects share the table of e1's kind unless given)
        cfgs = cfgs_for(kinds["e1"])
    return {"id": hid, "kinds": kinds, "cfgs": {k: cfgs[k] for k in used}, "calls": calls, "view": view}


def random_history(rng, n_calls, two=False, cfg_ids=("A", "B", "C"), run_ms=(0, 0, 1, 2)):
    objs = ["e1", "e2"] if two else ["e1"]
    calls = []
    live = {}
    for _ in range(n_calls):
        obj = rng.choice(objs)
        if not live.get(obj, False):
            sym = rng.choice([("setup", rng.choice(cfg_ids))] * 4 + [("finalize",), ("drop",)])
        else:
            sym = rng.choice([("setup", rng.choice(cfg_ids)), ("iterate",), ("iterate",), ("iterate",),
                              ("iterate_n", rng.choice([0, 1, 2, 3, 5, 50])), ("run", rng.choice(run_ms)),
                              ("sample",), ("sample",), ("get_progress",), ("is_complete",), ("get_output",),
                              ("finalize",)])
        calls.append(_call(sym, obj))
        if sym[0] == "setup":
            live[obj] = True
        elif sym[0] == "finalize":
            # as built, finalize on any object deletes the one native simulation (finding F6): the random driver
            # does not go on to dereference it through the other object (undefined behaviour can hang for the
            # whole time-out); the exhaustive two-object histories still cover those cases
            for o in objs:
                live[o] = False
    return calls


def handover_histories(kinds=KINDS):
    """One engine object is finished (and released) before the next one is set up; the old object is let go of at some later
    point - while the new one is being driven, or after. Letting go of an object is not a call: nothing may happen."""
    out = []
    n = 0
    for k1 in kinds:
        for k2 in kinds:
            for where in range(4):
                calls = [["setup", "e1", "A"], ["iterate_n", "e1", 3], ["get_output", "e1"], ["finalize", "e1"], ["setup", "e2", "B"]]
                rest = [["iterate", "e2"], ["sample", "e2"], ["iterate_n", "e2", 50], ["get_output", "e2"]]
                rest.insert(where, ["drop", "e1"])
                calls += rest + [["finalize", "e2"], ["drop", "e2"], ["setup", "e1", "C"], ["iterate", "e1"], ["get_output", "e1"], ["finalize", "e1"]]
                out.append(mk_history("ho%d" % n, calls, {"e1": k1, "e2": k2}, cfgs=LC_CFGS))
                n += 1
    return out


# ------------------------------------------------------------------------------------------
# verdicts

def signature(trace, diag):
    ev = trace["ev"]
    i = diag["accepted_prefix"]
    bad = ev[i] if i < len(ev) else {"call": "END"}
    prev = ev[i - 1]["call"] if i > 0 else "start"
    what = bad.get("call")
    if what == "EXC":
        what = "EXC-in-" + bad.get("in", "?")
    if what == "setup" and bad.get("cfg", {}).get("kind") not in ("fixed", "gill"):
        what = "setup-" + str(bad.get("cfg", {}).get("kind"))
    if diag.get("violated"):
        return "engine-trace:%s:after-%s:%s" % (what, prev, diag["violated"])
    if diag.get("tlc_error"):
        return "engine-trace:%s:after-%s:specification-cannot-evaluate" % (what, prev)
    return "engine-trace:%s:after-%s" % (what, prev)


def check_histories(rep, histories, label, flavour="plain", sample_every=0):
    """Record + validate under the contract; classify rejections.
    Overlapping two-object histories that the contract rejects are re-recorded in the 'glob'
    view and validated against the as-built (Sharing = "global") variant: accepted there means
    the divergence is exactly finding F6; rejected there too is a new violation."""
    traces = engine_val.record(histories, flavour=flavour)
    byid = {h["id"]: h for h in histories}
    acc, res = engine_val.validate(traces)
    for r in res:
        rep.add_tlc("Trace_Engine[%s]" % label, r)
        if not r.ok:
            from .vlib.report import MachineryError
            raise MachineryError("TLC failed on traces (%s): %s\n%s" % (label, r.error, r.tail(15)))
    nev = 0
    for t in traces:
        nev += len(t["ev"])
        rep.case(["hist", t["ev"]], nontrivial=len(t["ev"]) > 2)
    rep.traces += len(traces)
    rep.extra["events_validated"] = rep.extra.get("events_validated", 0) + nev
    rejected = [t for t in traces if t["id"] not in acc]
    redo = []
    for t in rejected:
        h = byid[t["id"]]
        if len({c[1] for c in h["calls"]}) > 1:
            redo.append(dict(h, view="glob"))
        else:
            _report(rep, t, h, "Trace_Engine", label)
    if redo:
        tr2 = engine_val.record(redo, flavour=flavour)
        acc2, res2 = engine_val.validate(tr2, cfg="Trace_EngineGlobal")
        for r in res2:
            rep.add_tlc("Trace_EngineGlobal[%s]" % label, r)
        for t in tr2:
            h = byid[t["id"]]
            if t["id"] in acc2:
                rep.violation("engine-trace/" + label, "engine-trace:two-objects-shared-simulation",
                              {"history": h["calls"], "kinds": h["kinds"],
                               "note": "rejected by the per-object contract, explained by the shared native simulation"})
            else:
                _report(rep, t, h, "Trace_EngineGlobal", label)
    if traces and sample_every is not None:
        t = traces[len(traces) // 2]
        rep.sample({"history": byid[t["id"]]["calls"], "kinds": byid[t["id"]]["kinds"],
                    "trace_head": t["ev"][:4], "accepted": t["id"] in acc})
    return traces, acc


def driver_histories(tier, seed, kinds=KINDS):
    """simulate_script(script, engine) through the recording proxy: alone, repeated on the same object, after plain
    calls, with and without progress printing, for every lifecycle configuration x engine kind x space type."""
    rng = random.Random(seed * 101 + 7)
    out = []
    n = 0
    for kind in kinds:
        for space in ("grid", "graph", "graphloop"):
            cfgs = dict(cfgs_for(kind, space))
            # runs that are complete before the clock reaches t_max (progress < 100 %): t_max = 0, and - for the exact
            # engine - a system whose processed initial state is empty, so that no event is ever possible
            cfgs["D"] = dict(system="decay", space=space, dt=0.5, ts=[0.0], policy="on_t_sample", seed=14)
            if kind == "gillespie":
                cfgs["E"] = dict(system="decay", space=space, dt=0.5, ts=[0.0, 0.5], policy="on_t_sample", seed=15, state=[0.3, 0.3, 0.0, 0.0])
            for cid in sorted(cfgs):
                for pp in (0, 1):
                    shapes = [[["simulate", "e1", cid, pp]],
                              [["simulate", "e1", cid, pp], ["simulate", "e1", cid, 1 - pp]],
                              [["setup", "e1", cid], ["iterate", "e1"], ["simulate", "e1", cid, pp], ["is_complete", "e1"]],
                              [["setup", "e1", cid], ["iterate_n", "e1", 50], ["get_output", "e1"], ["simulate", "e1", cid, pp],
                               ["finalize", "e1"], ["simulate", "e1", sorted(cfgs)[(sorted(cfgs).index(cid) + 1) % len(cfgs)], pp]]]
                    for calls in shapes:
                        out.append({"id": "drv%d" % n, "kinds": {"e1": kind}, "cfgs": cfgs, "calls": calls, "view": "own"})
                        n += 1
    if tier == "quick":
        out = [h for i, h in enumerate(out) if i % 2 == seed % 2 or len(h["calls"]) == 1]
    return out


def check_driver_histories(rep, histories, label="driver"):
    """Record the calls simulate_script makes on the engine handed to it and validate them against Trace_Simulate."""
    from .vlib.report import MachineryError
    traces = engine_val.record(histories)
    byid = {h["id"]: h for h in histories}
    acc, res = engine_val.validate(traces, cfg="Trace_Simulate", module="Trace_Simulate")
    for r in res:
        rep.add_tlc("Trace_Simulate[%s]" % label, r)
        if not r.ok:
            raise MachineryError("TLC failed on driver traces: %s\n%s" % (r.error, r.tail(15)))
    nev = 0
    for t in traces:
        nev += len(t["ev"])
        rep.case(["driver", t["ev"]], nontrivial=len(t["ev"]) > 4)
    rep.traces += len(traces)
    rep.extra["driver_events_validated"] = rep.extra.get("driver_events_validated", 0) + nev
    ndiag = 0
    for t in traces:
        if t["id"] in acc:
            continue
        h = byid[t["id"]]
        ndiag += 1
        if ndiag > 6:
            rep.violations.append({"check": "driver-trace", "signature": "driver-trace:not-diagnosed", "detail": {"history": h["calls"], "kinds": h["kinds"]}})
            continue
        i = engine_val.accepted_prefix(t, "Trace_Simulate", "Trace_Simulate")
        bad = t["ev"][i] if i < len(t["ev"]) else {"call": "END"}
        prev = t["ev"][i - 1]["call"] if i else "start"
        rep.violation("driver-trace", "driver-trace:%s:after-%s" % (bad.get("call") if bad.get("call") != "EXC" else "EXC-in-" + str(bad.get("in")), prev),
                      {"history": h["calls"], "kinds": h["kinds"], "cfgs": h["cfgs"], "accepted_prefix": i, "rejected_event": bad,
                       "events": [e.get("call") for e in t["ev"]][:40]},
                      replay={"kind": "driver-history", "history": h})
    if traces:
        t = traces[0]
        rep.sample({"driver_history": byid[t["id"]]["calls"], "calls_made_by_the_driver": [e.get("call") for e in t["ev"]], "accepted": t["id"] in acc})
    return traces, acc


MAX_DIAG = 12


def _report(rep, trace, h, cfg, label):
    n = rep.extra.get("rejected_traces", 0) + 1
    rep.extra["rejected_traces"] = n
    if n > MAX_DIAG:      # enough replays written; keep counting
        rep.violations.append({"check": "engine-trace/" + label, "signature": "engine-trace:not-diagnosed",
                               "detail": {"history": h["calls"], "kinds": h["kinds"]},
                               "replay": {"kind": "engine-history", "history": h}})
        return
    diag = engine_val.diagnose(trace, cfg=cfg)
    sig = signature(trace, diag)
    i = diag["accepted_prefix"]
    rep.violation("engine-trace/" + label, sig,
                  {"history": h["calls"], "kinds": h["kinds"], "cfgs": h["cfgs"], "view": h.get("view"),
                   "accepted_prefix": i, "rejected_event": diag["rejected_event"],
                   "previous_event": trace["ev"][i - 1] if i > 0 else None,
                   "violated_invariant": diag.get("violated"), "spec": cfg},
                  replay={"kind": "engine-history", "history": h})
