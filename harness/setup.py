"""./check --setup : verify the tool chain, parse every specification module, trial-build the engine.
Builds nothing persistent: every check rebuilds what it needs from /repo's working tree."""
import os
import shutil
import subprocess
import sys

from .vlib import build, tlc, util


def run():
    ok = True

    def step(name, fn):
        nonlocal ok
        try:
            r = fn()
            print("setup: %-40s %s" % (name, "ok" if r in (None, True) else r))
        except Exception as e:  # noqa
            ok = False
            print("setup: %-40s FAILED: %s" % (name, e))

    step("java", lambda: subprocess.run(["java", "-version"], capture_output=True, check=True) and None)
    step("tla2tools.jar", lambda: os.path.exists(tlc.JAR) or (_ for _ in ()).throw(RuntimeError("missing")))
    step("g++", lambda: shutil.which("g++") is not None or (_ for _ in ()).throw(RuntimeError("missing")))

    def imp():
        util.ensure_repo_importable()
        import strengths
        import numpy
        if not os.path.realpath(strengths.__file__).startswith(os.path.realpath(util.REPO)):
            raise RuntimeError("strengths imported from %s, not from %s" % (strengths.__file__, util.REPO))
    step("import strengths from /repo/src", imp)

    def parse():
        bad = []
        for f in sorted(os.listdir(util.SPECS)):
            if f.endswith(".tla"):
                good, out = tlc.sany(f[:-4])
                if not good:
                    bad.append(f)
        if bad:
            raise RuntimeError("SANY rejects: %s" % bad)
        return "ok (%d modules)" % len([f for f in os.listdir(util.SPECS) if f.endswith(".tla")])
    step("SANY parses every module", parse)
    step("trial build of the engine (g++)", lambda: build.build_engine("plain") and None)
    os.makedirs(util.EVIDENCE, exist_ok=True)
    return 0 if ok else 2
