"""Replay of the deterministic rate law (RDModel.FLaw / FEngine, evaluated exactly by TLC) into the
implementation: kinetics.compute_dstatedt, RDSystem.make_dxdtf, one step of the Euler engine."""
import ctypes
import json
import multiprocessing as mp
import os
from fractions import Fraction as Fr

import numpy as np

from . import engine_rec, rd_eval
from .vlib import build, util

util.ensure_repo_importable()
from strengths import RDScript, UnitArray, UnitValue, UnitsSystem, rdsystem_from_dict  # noqa: E402
from strengths.units import Units, quantity_units_dimensions  # noqa: E402
from strengths import kinetics  # noqa: E402

DT = Fr(1, 1024)


def spec_items(cases):
    """cases: list of (model, state[species][cell] as Fractions)"""
    items = []
    for m, st in cases:
        c = dict(m.spec_cfg())
        nC, nS = c["nC"], c["nS"]
        c["states"] = [[[[Fr(st[s][i]).numerator, Fr(st[s][i]).denominator] for s in range(nS)] for i in range(nC)]]
        c["dt"] = [DT.numerator, DT.denominator]
        items.append(c)
    return items


def model_check(rep, cases, label):
    """TLC: the cases as initial states of MC_RateLaw, one exact Euler step each."""
    import json as _json, os as _os
    from .vlib import tlc
    from .vlib.report import MachineryError
    p = _os.path.join(util.subdir("eval"), "ratelaw_%s.json" % label)
    with open(p, "w") as f:
        _json.dump(spec_items(cases), f)
    r = tlc.run("MC_RateLaw", env={"IN_FILE": p}, timeout=1800)
    rep.add_tlc("MC_RateLaw[%s] (%d cases)" % (label, len(cases)), r)
    if not r.ok:
        if r.violated:
            rep.violation("model", "model:ratelaw:" + r.violated, {"tlc": r.tail(60)})
        else:
            raise MachineryError("TLC failed: %s\n%s" % (r.error, r.tail(25)))


_lib = None


def _init():
    global _lib
    _lib = ctypes.CDLL(build.build_engine("plain"))


# unit systems the law is also evaluated in (every third case): the rate of change is a physical quantity
UNIT_VARIANTS = [("nm", "ms", "molecule"), ("mm", "min", "µmol"), ("dm", "s", "mol"), ("µm", "h", "nmol"), ("cm", "µs", "molecule")]


def _scaled(v, f):
    return {k: x * f for k, x in v.items()} if isinstance(v, dict) else v * f


def _other_parameters(d):
    """The same description with other parameter values (volumes, surfaces, distances, rate and diffusion constants)."""
    d = json.loads(json.dumps(d))
    for sp in d["network"]["species"]:
        if "D" in sp:
            sp["D"] = _scaled(sp["D"], 2.0)
    for r in d["network"]["reactions"]:
        for k, f in (("k+", 3.0), ("k-", 5.0)):
            if k in r:
                r[k] = _scaled(r[k], f)
    if d["space"]["type"] == "grid":
        d["space"]["cell_vol"] *= 8.0
    else:
        for n in d["space"]["nodes"]:
            n["volume"] *= 8.0
        for e in d["space"]["edges"]:
            e["surface"] *= 2.0
            e["distance"] *= 0.5
    return d


def _edit_in_place(system, d):
    """Brings a system built from _other_parameters(d) to the parameters of d through the objects' own attributes."""
    for sp, e in zip(system.network.species, d["network"]["species"]):
        if "D" in e:
            sp.D = e["D"]
    for r, e in zip(system.network.reactions, d["network"]["reactions"]):
        if "k+" in e:
            r.kf = e["k+"]
        if "k-" in e:
            r.kr = e["k-"]
    if d["space"]["type"] == "grid":
        system.space.cell_vol = d["space"]["cell_vol"]
    else:
        for n, e in zip(system.space.nodes, d["space"]["nodes"]):
            n.volume = e["volume"]
        for g, e in zip(system.space.edges, d["space"]["edges"]):
            g.surface = e["surface"]
            g.distance = e["distance"]


def _impl(args):
    d, flat, want, us = args[:4]
    edited = len(args) > 4 and args[4]
    out = {"units": list(us) if us else None, "edited_in_place": bool(edited)}
    usys = UnitsSystem(space=us[0], time=us[1], quantity=us[2]) if us else UnitsSystem()
    try:
        if edited:
            # a system that was built with other parameter values and already used, then edited in place: every function
            # has to see the values the objects hold now
            system = rdsystem_from_dict(_other_parameters(d))
            system.state = UnitArray([float(v) for v in flat], "molecule")
            try:
                kinetics.compute_dstatedt(system, units_system=usys)
                if system.space.size() == 1:
                    system.make_dxdtf()(0, [float(v) for v in flat])
            except Exception:  # noqa
                pass
            _edit_in_place(system, d)
        else:
            system = rdsystem_from_dict(json.loads(json.dumps(d)))
            system.state = UnitArray([float(v) for v in flat], "molecule")
    except Exception as e:  # noqa
        return {"build_exc": repr(e)[:300]}
    if "kin" in want:
        for key, chem in (("kin", True), ("kinfree", False)):
            try:
                r = kinetics.compute_dstatedt(system, apply_chemostats=chem, units_system=usys)
                dim = r.units.dim
                out[key] = [float(v) for v in r.convert(UnitsSystem()).value]
                out[key + "_dim"] = [dim["space"], dim["time"], dim["quantity"]]
            except Exception as e:  # noqa
                out[key + "_exc"] = repr(e)[:300]
    if "dxdtf" in want and system.space.size() == 1:
        try:
            f = system.make_dxdtf()
            out["dxdtf"] = [float(v) for v in f(0, [float(v) for v in flat])]
        except Exception as e:  # noqa
            out["dxdtf_exc"] = repr(e)[:300]
    if "euler" in want:
        r, w = os.pipe()
        pid = os.fork()
        if pid == 0:
            os.close(r)
            try:
                eng = build.make_engine("euler", lib=_lib)
                script = RDScript(system=system, t_sample=[UnitValue(0.0, "s")], t_max=UnitValue(-1.0, "s"), time_step=UnitValue(float(DT), "s"),
                                  sampling_policy="no_sampling", units_system=usys)
                eng.setup(script)
                x0 = engine_rec.raw_state(_lib, len(flat))
                eng.iterate()
                x1 = engine_rec.raw_state(_lib, len(flat))
                if us:      # the engine works in the script's units: bring the amounts back to molecules
                    qu = Units(sys=eng._units_system, dim=quantity_units_dimensions())
                    x0 = UnitArray(np.array(x0), qu, check_value=False).convert(UnitsSystem()).value
                    x1 = UnitArray(np.array(x1), qu, check_value=False).convert(UnitsSystem()).value
                eng.finalize()
                msg = json.dumps({"x0": [float(v) for v in x0], "x1": [float(v) for v in x1]})
            except BaseException as e:  # noqa
                msg = json.dumps({"exc": repr(e)[:300]})
            with os.fdopen(w, "w") as f:
                f.write(msg)
            os._exit(0)
        os.close(w)
        data = engine_rec._read_all(r, 20, pid)
        _, status = os.waitpid(pid, 0)
        if data is None:
            out["euler_exc"] = "hang"
        elif os.WIFSIGNALED(status) or not data:
            out["euler_exc"] = "crash"
        else:
            e = json.loads(data.decode())
            if "exc" in e:
                out["euler_exc"] = e["exc"]
            else:
                out["euler_x0"], out["euler_x1"] = e["x0"], e["x1"]
    return out


def impl_values(cases, want=("kin", "dxdtf", "euler")):
    build.build_engine("plain")
    args = []
    for m, st in cases:
        flat = [st[s][i] for s in range(len(st)) for i in range(len(st[0]))]
        us = UNIT_VARIANTS[(len(args) // 3) % len(UNIT_VARIANTS)] if len(args) % 3 == 2 else None
        args.append((m.strengths_dict(explicit_state=False), flat, want, us, len(args) % 4 == 1))
    ctx = mp.get_context("fork")
    with ctx.Pool(util.NCPU, initializer=_init) as pool:
        return pool.map(_impl, args, chunksize=max(1, len(args) // (util.NCPU * 8)))


def fr(p):
    return Fr(p[0], p[1])


def compare(rep, cases, spec, impl, check, props=("law",)):
    """spec[i] = FlawAt result for the single state of case i."""
    for idx, ((m, st), sp, im) in enumerate(zip(cases, spec, impl)):
        sp = sp[0]
        nS, nC = len(st), len(st[0])
        key = [m.key(), [[str(v) for v in row] for row in st]]
        nontriv = any(fr(sp["gross"][i][s]) != 0 for i in range(nC) for s in range(nS))
        rep.case(key, nontrivial=nontriv)
        repl = {"kind": "rate-law", "model": m.strengths_dict(explicit_state=False),
                "state": [[str(v) for v in row] for row in st]}
        if not sp["agree"]:
            rep.violation(check, "model:law-vs-engine-shape", {"spec": sp}, replay=repl)
        for clause in ("eulerConserves", "eulerHoldsChem", "chemZero", "restSame"):
            if not sp[clause]:
                rep.violation(check, "model:" + clause, {"model": m.strengths_dict()}, replay=repl)
        if "build_exc" in im:
            rep.violation(check, "law:build-exception", {"exc": im["build_exc"], "model": m.strengths_dict()}, replay=repl)
            continue

        def vec(name):
            return [[float(fr(sp[name][i][s])) for i in range(nC)] for s in range(nS)]   # species-major
        law, free, gross = vec("law"), vec("free"), vec("gross")
        flat = lambda v: [v[s][i] for s in range(nS) for i in range(nC)]
        L, F, G = flat(law), flat(free), flat(gross)
        x0 = [float(st[s][i]) for s in range(nS) for i in range(nC)]

        def cmp(name, got, want, extra_tol=None):
            for k in range(len(want)):
                tol = 1e-9 * G[k] + 1e-12 + (extra_tol[k] if extra_tol else 0.0)
                if not (abs(got[k] - want[k]) <= tol):
                    s, i = divmod(k, nC)
                    flagged = bool(m.chem_map()[s][i])
                    rep.violation(check, "law:%s:%s" % (name, "chemostated-entry" if flagged else "free-entry"),
                                  {"function": name, "species": s, "cell": i, "got": got[k], "spec": want[k], "tolerance": tol,
                                   "route": "system built with other parameters, used, then edited in place" if im.get("edited_in_place") else "as built",
                                   "state": [[str(v) for v in row] for row in st], "model": m.strengths_dict(explicit_state=False)},
                                  replay=repl)
                    return False
            return True
        for name, want in (("kin", L), ("kinfree", F)):
            if name + "_exc" in im:
                isolated = all(g == 0 for g in G)
                rep.violation(check, "law:%s-exception%s" % (name, ":no-reaction-no-neighbour" if _isolated(m) else ""),
                              {"exc": im[name + "_exc"], "model": m.strengths_dict(explicit_state=False)}, replay=repl)
            elif name in im:
                cmp("compute_dstatedt" + ("" if name == "kin" else "(apply_chemostats=False)"), im[name], want)
                if im[name + "_dim"] != [0, -1, 1]:
                    rep.violation(check, "law:dimension", {"function": name, "dim": im[name + "_dim"]}, replay=repl)
        if "dxdtf_exc" in im:
            rep.violation(check, "law:make_dxdtf-exception", {"exc": im["dxdtf_exc"], "model": m.strengths_dict()}, replay=repl)
        elif "dxdtf" in im:
            cmp("make_dxdtf", im["dxdtf"], L)
        if "euler_exc" in im:
            rep.violation(check, "law:euler-step-" + str(im["euler_exc"])[:20], {"model": m.strengths_dict()}, replay=repl)
        elif "euler_x1" in im:
            dt = float(DT)
            if (im["euler_x0"] != x0) if not im.get("units") else any(abs(a - b) > 1e-12 * max(abs(a), abs(b)) for a, b in zip(im["euler_x0"], x0)):
                rep.violation(check, "law:euler-initial-state", {"got": im["euler_x0"], "want": x0}, replay=repl)
            else:
                got = [(a - b) / dt for a, b in zip(im["euler_x1"], im["euler_x0"])]
                # (amounts converted to another unit and back carry a few more roundings)
                ulp = 4e-16 if not im.get("units") else 2e-15
                cmp("euler-step", got, L, extra_tol=[ulp * (abs(v) + abs(l) * dt) / dt for v, l in zip(x0, L)])
                # chemostated entries: exactly unchanged
                cm = m.chem_map()
                for s in range(nS):
                    for i in range(nC):
                        if cm[s][i] and im["euler_x1"][s * nC + i] != im["euler_x0"][s * nC + i]:
                            rep.violation(check, "law:euler-step:chemostated-entry",
                                          {"species": s, "cell": i, "model": m.strengths_dict()}, replay=repl)
        if idx < 3:
            rep.sample({"model": m.strengths_dict(explicit_state=False), "state": [[str(v) for v in row] for row in st],
                        "spec_dxdt": L, "impl": {k: v for k, v in im.items() if k in ("kin", "dxdtf")}})


def _isolated(m):
    return len(m.reactions) == 0 and all(l == 0 for l in [len(x) for x in _nb(m)])


def _nb(m):
    from .checks.c07 import _neighbour_table
    return _neighbour_table(m)
