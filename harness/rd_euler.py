"""Long Euler trajectories (binary64) monitored with quantities computed by the specification:
conservation laws (C02) and chemostated entries (C03)."""
import ctypes
import multiprocessing as mp
import os
import pickle

import numpy as np

from . import engine_rec, rd_rec
from .vlib import build, util

util.ensure_repo_importable()
from strengths import RDScript  # noqa: E402

_lib = None


def _init():
    global _lib
    _lib = ctypes.CDLL(build.build_engine("plain"))


def _run(args):
    m, nsteps, dt, every = args
    r, w = os.pipe()
    pid = os.fork()
    if pid == 0:
        os.close(r)
        try:
            system = rd_rec.build_system(m)
            script = RDScript(system=system, t_sample=[0.0], t_max=-1.0, time_step=dt, sampling_policy="on_interval",
                              sampling_interval=dt * every)
            eng = build.make_engine("euler", lib=_lib)
            eng.setup(script)
            eng.iterate_n(nsteps)
            traj = engine_rec.raw_traj(_lib, system.state_size())
            eng.finalize()
            out = pickle.dumps(("ok", traj))
        except BaseException as e:  # noqa
            out = pickle.dumps(("exc", repr(e)[:300]))
        with os.fdopen(w, "wb") as f:
            f.write(out)
        os._exit(0)
    os.close(w)
    data = engine_rec._read_all(r, 60, pid)
    _, status = os.waitpid(pid, 0)
    if data is None:
        return ("hang",)
    if os.WIFSIGNALED(status) or not data:
        return ("crash",)
    return pickle.loads(data)


def trajectories(models, nsteps, dt=1.0 / 1024, every=16):
    build.build_engine("plain")
    ctx = mp.get_context("fork")
    with ctx.Pool(util.NCPU, initializer=_init) as pool:
        return pool.map(_run, [(m, nsteps, dt, every) for m in models], chunksize=1)


def check_laws(rep, m, traj, laws, check):
    """laws: list of coefficient vectors over species (from TLC). drift <= 1e-10 * gross movement."""
    nC, nS = m.ncells(), len(m.species)
    X = traj.reshape((traj.shape[0], nS, nC))
    if not np.all(np.isfinite(X)):
        return "nonfinite"
    move = np.abs(np.diff(X, axis=0)).sum(axis=(0, 2))       # per species total movement
    for v in laws:
        v = np.array(v, dtype=float)
        tot = (X.sum(axis=2) * v).sum(axis=1)
        gross = float((np.abs(v) * (np.abs(X[0]).sum(axis=1) + move)).sum())
        drift = float(np.max(np.abs(tot - tot[0])))
        if drift > 1e-10 * gross + 1e-12:
            rep.violation(check, "euler:conservation-drift",
                          {"law": [int(a) for a in v], "drift": drift, "gross": gross, "samples": int(X.shape[0]),
                           "model": m.strengths_dict()},
                          replay={"kind": "euler-run", "model": m.strengths_dict()})
            return "drift"
    return "ok"


def check_chem(rep, m, traj, check):
    nC, nS = m.ncells(), len(m.species)
    X = traj.reshape((traj.shape[0], nS, nC))
    cm = m.chem_map()
    for s in range(nS):
        for i in range(nC):
            if cm[s][i] and not np.all(X[:, s, i] == X[0, s, i]):
                rep.violation(check, "euler:chemostated-entry-changed",
                              {"species": s, "cell": i, "values": [float(x) for x in X[:5, s, i]], "model": m.strengths_dict()},
                              replay={"kind": "euler-run", "model": m.strengths_dict()})
                return False
    return True
