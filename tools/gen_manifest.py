#!/usr/bin/env python3
"""Regenerate MANIFEST.json from the table below (single source of truth for the interface)."""
import json
import os

HERE = os.path.dirname(os.path.dirname(os.path.abspath(__file__)))

# property -> (level, technique, text, note, design_ref)   -- only properties whose check exists
CHECKS = {}

PENDING_REASON = "check not built yet (framework under construction; see DESIGN.md section 6 for the order of work)"

ALL = ["C%02d" % i for i in range(1, 21)]


def load_checks():
    p = os.path.join(HERE, "tools", "checks_table.json")
    if os.path.exists(p):
        with open(p) as f:
            return json.load(f)
    return {}


def main():
    table = load_checks()
    hooks_commits = table.pop("_hook_commits", [])
    checks = []
    for pid in ALL:
        if pid not in table:
            continue
        c = table[pid]
        checks.append({
            "property_id": pid,
            "quick_cmd": "./check %s --tier quick" % pid,
            "thorough_cmd": "./check %s --tier thorough" % pid,
            "evidence_file": "evidence/%s.json" % pid,
            "replay_cmd_template": "./check %s --replay {path}" % pid,
            "engine": c.get("engine", "tlc+replay"),
            "level_claimed": {"category": c["level"], "text": c["text"], "design_ref": c.get("design_ref", "DESIGN.md section 3")},
            "level_note": c["note"],
            "technique": c["technique"],
        })
    na = [{"property_id": pid, "reason": table.get("_na", {}).get(pid, PENDING_REASON)}
          for pid in ALL if pid not in table]
    m = {
        "version": 1,
        "setup_cmd": "./check --setup",
        "hooks": {
            "guard": "STRENGTHS_VERIF",
            "enable": "export STRENGTHS_VERIF=1 (the ./check wrapper sets it); the native probe is compiled in by harness/vlib/build.py with -DSTRENGTHS_VERIF; the Python trace emitter additionally needs STRENGTHS_VERIF_TRACE=<file>",
            "baseline_off_cmd": "cd /repo && env -u STRENGTHS_VERIF -u STRENGTHS_VERIF_TRACE /venv/bin/python -m pytest -ra -q -p no:cacheprovider --timeout=900 --continue-on-collection-errors",
            "source_commits": hooks_commits,
            "add_only": True,
        },
        "engines": [
            {"name": "tlc+replay", "path": "specs/ harness/", "serves_properties": [c["property_id"] for c in checks],
             "kind_free_text": "explicit TLA+ specification model-checked with TLC 1.8; bound to the implementation by replaying TLC-generated cases/behaviours into the real code and by validating recorded traces of the real code against trace specifications"},
        ],
        "checks": checks,
        "notes": "All checks rebuild the native engine from /repo's working tree into a scratch directory; see DESIGN.md.",
        "not_applicable": na,
    }
    with open(os.path.join(HERE, "MANIFEST.json"), "w") as f:
        json.dump(m, f, indent=1)
        f.write("\n")


if __name__ == "__main__":
    main()
