#!/bin/sh
# usage: tools/try_seed.sh <patch.diff> <tier> <prop> [<prop> ...]
# applies a seeded change to /repo, runs the named checks, restores /repo. Never leaves the patch applied.
PATCH=$1; TIER=$2; shift 2
cd /verif || exit 2
if [ -n "$(git -C /repo status --porcelain --untracked-files=no)" ]; then echo "/repo is not clean"; exit 2; fi
git -C /repo apply "$PATCH" || { echo "patch does not apply"; exit 2; }
export VERIF_OUT_DIR=$(mktemp -d /tmp/try_seed_out.XXXXXX)
trap 'git -C /repo checkout -- . ; rm -rf "$VERIF_OUT_DIR"' EXIT INT TERM
for P in "$@"; do
  START=$(date +%s)
  OUT=$(./check $P --tier $TIER 2>&1); RC=$?
  END=$(date +%s)
  NV=$(echo "$OUT" | grep -c '^VIOLATION')
  echo "$P rc=$RC violations=$NV time=$((END-START))s"
  echo "$OUT" | grep -A1 '^VIOLATION' | grep signature | sort | uniq -c | head -5
done
