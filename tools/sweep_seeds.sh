#!/bin/bash
# usage: tools/sweep_seeds.sh <repo-copy> <out-file> <prop> [<prop> ...]
# Applies every stored seeded change of the named properties to a scratch copy of the repository (never /repo itself), runs the
# property's quick check against that copy, restores the copy, and writes one line per seed: "<seed> rc=<rc> violations=<n>".
# A stored seed is expected to give rc=1; rc=0 means the check no longer reports it, rc=2 a machinery failure.
REPO=$1; OUT=$2; shift 2
case "$REPO" in /repo|/repo/) echo "refusing to run on /repo"; exit 2;; esac
cd "$(dirname "$0")/.." || exit 2
export VERIF_REPO_ROOT=$REPO
export VERIF_OUT_DIR=$(mktemp -d /tmp/sweep_out.XXXXXX)
trap 'git -C "$REPO" checkout -- . ; rm -rf "$VERIF_OUT_DIR"' EXIT INT TERM
for P in "$@"; do
  for D in $(ls -d seeded/S-$P-* | sort -t- -k3 -n); do
    S=$(basename $D)
    git -C "$REPO" checkout -q -- .
    if ! git -C "$REPO" apply "$PWD/$D/patch.diff" 2>/dev/null; then echo "$S patch-does-not-apply" >> "$OUT"; continue; fi
    T0=$(date +%s)
    ./check $P --tier quick > "$VERIF_OUT_DIR/log.txt" 2>&1; RC=$?
    echo "$S rc=$RC violations=$(grep -c '^VIOLATION' "$VERIF_OUT_DIR/log.txt") time=$(( $(date +%s)-T0 ))s $(grep -o 'signature=[^ ]*' "$VERIF_OUT_DIR/log.txt" | head -2 | tr '\n' ' ')" >> "$OUT"
    git -C "$REPO" checkout -q -- .
  done
done
echo "finished $*" >> "$OUT"
