#!/usr/bin/env python3
"""Sanity check of the committed evidence files: schema-valid, written by a run against the unmodified /repo tree,
without violations. Run before committing evidence (python3-vt tools/check_evidence.py)."""
import glob
import json
import sys

try:
    import jsonschema
except ImportError:
    jsonschema = None

schema = json.load(open("/root/.vp/EVIDENCE.schema.json"))
bad = 0
for p in sorted(glob.glob("/verif/evidence/C*.json")):
    e = json.load(open(p))
    msgs = []
    if jsonschema:
        try:
            jsonschema.validate(e, schema)
        except Exception as x:  # noqa
            msgs.append("schema: " + str(x)[:120])
    if e.get("violations"):
        msgs.append("violations=%s" % e["violations"])
    t = e["coverage"].get("tree_checked") or {}
    if t.get("root") != "/repo" or t.get("tracked_files_modified") != 0:
        msgs.append("tree_checked=%s" % t)
    print("%s %-8s %6.0fs  %s" % (e["property_id"], e["tier"], e["wall_s"], "; ".join(msgs) or "ok"))
    bad += bool(msgs)
sys.exit(1 if bad else 0)
