#!/bin/sh
# Run the repository's pinned test-suite with the verification guard OFF and compare with BASELINE.json.
# With --rebuild, first rebuild the (untracked) in-tree engine library from the working tree.
cd /repo || exit 2
if [ "$1" = "--rebuild" ]; then
  /venv/bin/python setup.py build_ext --inplace >/dev/null 2>&1 || { echo "rebuild failed"; exit 2; }
  rm -rf build
fi
OUT=$(mktemp)
env -u STRENGTHS_VERIF -u STRENGTHS_VERIF_TRACE /venv/bin/python -m pytest -ra -q -p no:cacheprovider --timeout=900 --continue-on-collection-errors --junitxml=$OUT.xml > $OUT 2>&1
tail -3 $OUT
python3 - $OUT.xml <<'PY'
import json, sys, xml.etree.ElementTree as ET
base = set(json.load(open('/root/.vp/BASELINE.json'))['stable_pass'])
ok = set()
for tc in ET.parse(sys.argv[1]).getroot().iter('testcase'):
    if not any(c.tag in ('failure', 'error', 'skipped') for c in tc):
        ok.add(tc.get('classname') + '::' + tc.get('name'))
missing = sorted(base - ok)
print('baseline tests passing: %d/%d' % (len(base & ok), len(base)))
for m in missing: print('  MISSING', m)
sys.exit(1 if missing else 0)
PY
RC=$?
rm -f $OUT $OUT.xml
exit $RC
