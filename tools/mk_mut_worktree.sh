#!/bin/sh
# create a scratch worktree of /repo (current HEAD) for a seeded-change agent, with the engine built in place
set -e
WT=/tmp/mut/$1
rm -rf "$WT"; git -C /repo worktree prune
git -C /repo worktree add --detach "$WT" HEAD -q
cd "$WT"
/venv/bin/python setup.py build_ext --inplace >/dev/null 2>&1
rm -rf build
mkdir -p _seed
echo "$WT"
