#!/usr/bin/env python3
"""Byte-exact replacement in a /repo file that keeps its CRLF line endings.
usage: repo_edit.py FILE <<< JSON {"old": "...", "new": "..."}   (texts written with \n)"""
import json, sys
p = sys.argv[1]
d = json.load(sys.stdin)
b = open(p, "rb").read()
crlf = b"\r\n" in b
old = d["old"].encode("utf8"); new = d["new"].encode("utf8")
if crlf:
    old = old.replace(b"\n", b"\r\n"); new = new.replace(b"\n", b"\r\n")
n = b.count(old)
if n != 1:
    sys.exit("expected exactly one occurrence, found %d" % n)
open(p, "wb").write(b.replace(old, new))
