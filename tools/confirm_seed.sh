#!/bin/bash
# usage: tools/confirm_seed.sh <worktree-name> <seed-id> <property>
# Confirms a seeded change produced in /tmp/mut/<worktree-name>: the patch applies to a clean checkout, the 118 baseline
# tests still pass with it, the demonstration fails with it and passes without it. Then stores it under /verif/seeded/<seed-id>/.
WT=/tmp/mut/$1; ID=$2; PROP=$3
cd $WT || exit 2
PY="env PYTHONPATH=$WT/src PYTHONWARNINGS=ignore /venv/bin/python"
rebuild() { if grep -q 'strengths_engine/src' _seed/patch.diff; then /venv/bin/python setup.py build_ext --inplace >/dev/null 2>&1; rm -rf build; fi; }
git checkout -q -- src tests 2>/dev/null; git stash list | grep -q . && true
git apply --check _seed/patch.diff || { echo "patch does not apply to the clean tree"; exit 1; }
# without the change
rebuild
timeout 600 $PY _seed/demo.py > _seed/demo_without.log 2>&1; RC0=$?
# with the change
git apply _seed/patch.diff; rebuild
timeout 900 $PY -m pytest -q -p no:cacheprovider --junitxml=_seed/junit.xml > _seed/tests_with.log 2>&1
TESTS=$(python3 - <<PY
import json, xml.etree.ElementTree as ET
base = set(json.load(open('/root/.vp/BASELINE.json'))['stable_pass'])
ok = set()
for tc in ET.parse('$WT/_seed/junit.xml').getroot().iter('testcase'):
    if not any(c.tag in ('failure','error','skipped') for c in tc): ok.add(tc.get('classname')+'::'+tc.get('name'))
print(len(base & ok))
PY
)
timeout 600 $PY _seed/demo.py > _seed/demo_with.log 2>&1; RC1=$?
git checkout -q -- tests 2>/dev/null
STAT=$(git diff --stat -- src | tail -1)
echo "$ID ($PROP): baseline tests passing with change: $TESTS/118 ; demo without change rc=$RC0 ; with change rc=$RC1 ; $STAT"
if [ "$TESTS" = "118" ] && [ "$RC0" = "0" ] && [ "$RC1" != "0" ]; then
  mkdir -p /verif/seeded/$ID
  cp _seed/patch.diff _seed/demo.py _seed/notes.md /verif/seeded/$ID/
  python3 - <<PY
import json
meta = {"id": "$ID", "property": "$PROP", "confirmed": {"baseline_tests_passing_with_change": int("$TESTS"), "demo_rc_without_change": int("$RC0"), "demo_rc_with_change": int("$RC1"), "diffstat": "$STAT".strip()},
        "confirmed_by": "tools/confirm_seed.sh in a scratch worktree of /repo (patch applied to a clean checkout, engine rebuilt when C++ is touched)",
        "needs": "see notes.md", "checks_run": []}
json.dump(meta, open('/verif/seeded/$ID/meta.json', 'w'), indent=1)
PY
  echo "  stored in /verif/seeded/$ID"
else
  echo "  NOT CONFIRMED"; tail -5 _seed/demo_without.log; tail -5 _seed/demo_with.log
fi
